// C17 harnesses
