//! C17: BlockRanges behaves as a set of heights.
//!
//! Every harness is ONE inductive step: an arbitrary representation-valid `BlockRanges` with a
//! fixed number of stored ranges whose bounds are free u64 values, one operation with free
//! arguments, and a universally quantified probe height `h` (a free u64): the result must be
//! representation-valid and `h` must be a member exactly when the set-theoretic definition says so.
use crate::block_ranges::{BlockRange, BlockRangeExt, BlockRanges};
use crate::common::*;

fn in_range(a: u64, e: u64, h: u64) -> bool {
    a <= h && h <= e
}

fn insert<const N: usize>() {
    let b = any_bounds::<N>();
    let mut r = build(&b);
    let (a, e, h): (u64, u64, u64) = kani::any();
    let before = mem(&b, h);
    let res = r.insert_relaxed(a..=e);
    let valid = a >= 1 && a <= e;
    assert!(res.is_ok() == valid, "C17 insert: Ok iff the range is valid");
    assert!(repr_ok(&r), "C17 insert: representation invariant broken");
    if valid {
        assert!(rmem(&r, h) == (before || in_range(a, e, h)), "C17 insert: result is not S + [a,e]");
    } else {
        assert!(rmem(&r, h) == before, "C17 insert: rejected insert changed the set");
    }
    kani::cover!(valid, "witness: valid insert");
    kani::cover!(!valid, "witness: invalid insert");
}

fn remove<const N: usize>() {
    let b = any_bounds::<N>();
    let mut r = build(&b);
    let (a, e, h): (u64, u64, u64) = kani::any();
    let before = mem(&b, h);
    let res = r.remove_relaxed(a..=e);
    let valid = a >= 1 && a <= e;
    assert!(res.is_ok() == valid, "C17 remove: Ok iff the range is valid");
    assert!(repr_ok(&r), "C17 remove: representation invariant broken");
    if valid {
        assert!(rmem(&r, h) == (before && !in_range(a, e, h)), "C17 remove: result is not S - [a,e]");
    } else {
        assert!(rmem(&r, h) == before, "C17 remove: rejected remove changed the set");
    }
    kani::cover!(valid, "witness: valid remove");
    kani::cover!(!valid, "witness: invalid remove");
}

fn complement<const N: usize>() {
    let b = any_bounds::<N>();
    let r = build(&b);
    let h: u64 = kani::any();
    let c = !r;
    assert!(repr_ok(&c), "C17 complement: representation invariant broken");
    assert!(rmem(&c, h) == (h >= 1 && !mem(&b, h)), "C17 complement: result is not [1,MAX] - S");
    kani::cover!(rmem(&c, h), "witness: complement non-empty");
}

fn union<const N: usize, const M: usize>() {
    let x = any_bounds::<N>();
    let y = any_bounds::<M>();
    let h: u64 = kani::any();
    let r = build(&x) | build(&y);
    assert!(repr_ok(&r), "C17 union: representation invariant broken");
    assert!(rmem(&r, h) == (mem(&x, h) || mem(&y, h)), "C17 union: result is not A + B");
    kani::cover!(true, "witness: union reached");
}

fn add<const N: usize, const M: usize>() {
    let x = any_bounds::<N>();
    let y = any_bounds::<M>();
    let h: u64 = kani::any();
    let mut r = build(&x);
    r += &build(&y);
    assert!(repr_ok(&r), "C17 add: representation invariant broken");
    assert!(rmem(&r, h) == (mem(&x, h) || mem(&y, h)), "C17 add: result is not A + B");
    kani::cover!(true, "witness: add reached");
}

fn difference<const N: usize, const M: usize>() {
    let x = any_bounds::<N>();
    let y = any_bounds::<M>();
    let h: u64 = kani::any();
    let r = build(&x) - build(&y);
    assert!(repr_ok(&r), "C17 difference: representation invariant broken");
    assert!(rmem(&r, h) == (mem(&x, h) && !mem(&y, h)), "C17 difference: result is not A - B");
    kani::cover!(true, "witness: difference reached");
}

// Intersection is implemented as `!(!A | !B)`. Executing three complements and a union
// symbolically in one query is out of reach (CBMC aborts at the 14 GB cap even for empty
// operands), so it is decided compositionally: `Not::not` and `BitOr::bitor` are replaced
// (kani::stub) by their CONTRACTS -- an arbitrary representation-valid value whose membership
// at the probe height is what complement / union prescribe -- and the real
// `bitand_assign`/`bitand` bodies are executed on top of them. The contracts themselves are
// what the `c17_complement_*` and `c17_union_*` harnesses establish for the real bodies.
static mut PROBE: u64 = 0;

fn any_small() -> BlockRanges {
    // arbitrary valid value with 0, 1 or 2 ranges; only its membership at PROBE and its
    // validity are observed by the callers below
    let k: u8 = kani::any();
    if k == 0 {
        build(&any_bounds::<0>())
    } else if k == 1 {
        build(&any_bounds::<1>())
    } else {
        build(&any_bounds::<2>())
    }
}

fn not_contract(x: BlockRanges) -> BlockRanges {
    let h = unsafe { PROBE };
    let c = any_small();
    kani::assume(rmem(&c, h) == (h >= 1 && !rmem(&x, h)));
    c
}

fn bitor_contract(x: BlockRanges, y: BlockRanges) -> BlockRanges {
    let h = unsafe { PROBE };
    let c = any_small();
    kani::assume(rmem(&c, h) == (rmem(&x, h) || rmem(&y, h)));
    c
}

fn intersection<const N: usize, const M: usize>() {
    let x = any_bounds::<N>();
    let y = any_bounds::<M>();
    let h: u64 = kani::any();
    unsafe { PROBE = h };
    let r = if kani::any() {
        build(&x) & build(&y)
    } else {
        let mut a = build(&x);
        a &= &build(&y);
        a
    };
    assert!(repr_ok(&r), "C17 intersection: representation invariant broken");
    assert!(rmem(&r, h) == (mem(&x, h) && mem(&y, h)), "C17 intersection: result is not A & B");
    kani::cover!(rmem(&r, h) || N == 0 || M == 0, "witness: intersection non-empty");
}

fn queries<const N: usize>() {
    let b = any_bounds::<N>();
    let r = build(&b);
    let h: u64 = kani::any();
    assert!(r.contains(h) == mem(&b, h), "C17 contains: wrong membership");
    assert!(r.len() as u128 == card(&b), "C17 len: wrong cardinality");
    assert!(r.is_empty() == (N == 0), "C17 is_empty: wrong");
    match r.head() {
        None => assert!(N == 0, "C17 head: None on non-empty set"),
        Some(x) => {
            assert!(mem(&b, x), "C17 head: not a member");
            assert!(!mem(&b, h) || h <= x, "C17 head: not the maximum");
        }
    }
    match r.tail() {
        None => assert!(N == 0, "C17 tail: None on non-empty set"),
        Some(x) => {
            assert!(mem(&b, x), "C17 tail: not a member");
            assert!(!mem(&b, h) || h >= x, "C17 tail: not the minimum");
        }
    }
    kani::cover!(mem(&b, h) || N == 0, "witness: probe inside the set");
}

fn pop_head<const N: usize>() {
    let b = any_bounds::<N>();
    let mut r = build(&b);
    let h: u64 = kani::any();
    let popped = if kani::any() { r.pop_head() } else { r.next_back() };
    assert!(repr_ok(&r), "C17 pop_head: representation invariant broken");
    match popped {
        None => assert!(N == 0, "C17 pop_head: None on non-empty set"),
        Some(x) => {
            assert!(mem(&b, x) && (!mem(&b, h) || h <= x), "C17 pop_head: did not return the maximum");
            assert!(rmem(&r, h) == (mem(&b, h) && h != x), "C17 pop_head: result is not S minus its maximum");
        }
    }
    kani::cover!(popped.is_some() || N == 0, "witness: pop_head reached");
}

fn pop_tail<const N: usize>() {
    let b = any_bounds::<N>();
    let mut r = build(&b);
    let h: u64 = kani::any();
    let popped = if kani::any() { r.pop_tail() } else { r.next() };
    assert!(repr_ok(&r), "C17 pop_tail: representation invariant broken");
    match popped {
        None => assert!(N == 0, "C17 pop_tail: None on non-empty set"),
        Some(x) => {
            assert!(mem(&b, x) && (!mem(&b, h) || h >= x), "C17 pop_tail: did not return the minimum");
            assert!(rmem(&r, h) == (mem(&b, h) && h != x), "C17 pop_tail: result is not S minus its minimum");
        }
    }
    kani::cover!(popped.is_some() || N == 0, "witness: pop_tail reached");
}

fn headn<const N: usize>() {
    let b = any_bounds::<N>();
    let r = build(&b);
    let (limit, h1, h2): (u64, u64, u64) = kani::any();
    let t = r.headn(limit);
    assert!(repr_ok(&t), "C17 headn: representation invariant broken");
    let c = card(&b);
    let want = if (limit as u128) < c { limit as u128 } else { c };
    assert!(rcard(&t) == want, "C17 headn: wrong number of heights");
    assert!(!rmem(&t, h1) || mem(&b, h1), "C17 headn: result not a subset");
    // everything left out is below everything kept
    assert!(!(mem(&b, h1) && !rmem(&t, h1) && rmem(&t, h2)) || h1 < h2, "C17 headn: not the highest heights");
    kani::cover!(N == 0 || (limit > 0 && (limit as u128) < c), "witness: headn truncates");
}

fn tailn<const N: usize>() {
    let b = any_bounds::<N>();
    let r = build(&b);
    let (limit, h1, h2): (u64, u64, u64) = kani::any();
    let t = r.tailn(limit);
    assert!(repr_ok(&t), "C17 tailn: representation invariant broken");
    let c = card(&b);
    let want = if (limit as u128) < c { limit as u128 } else { c };
    assert!(rcard(&t) == want, "C17 tailn: wrong number of heights");
    assert!(!rmem(&t, h1) || mem(&b, h1), "C17 tailn: result not a subset");
    assert!(!(mem(&b, h1) && !rmem(&t, h1) && rmem(&t, h2)) || h1 > h2, "C17 tailn: not the lowest heights");
    kani::cover!(N == 0 || (limit > 0 && (limit as u128) < c), "witness: tailn truncates");
}

fn edges<const N: usize>() {
    let b = any_bounds::<N>();
    let r = build(&b);
    let h: u64 = kani::any();
    let e = r.edges();
    assert!(repr_ok(&e), "C17 edges: representation invariant broken");
    let below = h > 1 && mem(&b, h - 1);
    let above = h < u64::MAX && mem(&b, h + 1);
    assert!(rmem(&e, h) == (mem(&b, h) && (!below || !above)), "C17 edges: not exactly the boundary heights");
    kani::cover!(rmem(&e, h) || N == 0, "witness: edges reached");
}

fn left_right_of<const N: usize>() {
    let b = any_bounds::<N>();
    let r = build(&b);
    let (x, h): (u64, u64) = kani::any();
    kani::assume(x >= 1); // heights are >= 1 (documented domain of BlockRanges)
    match r.left_of(x) {
        Some(y) => {
            assert!(mem(&b, y) && y < x, "C17 left_of: not a member below x");
            assert!(!(mem(&b, h) && h < x) || h <= y, "C17 left_of: not the greatest member below x");
        }
        None => assert!(!(mem(&b, h) && h < x), "C17 left_of: None although a member below x exists"),
    }
    match r.right_of(x) {
        Some(y) => {
            assert!(mem(&b, y) && y > x, "C17 right_of: not a member above x");
            assert!(!(mem(&b, h) && h > x) || h >= y, "C17 right_of: not the least member above x");
        }
        None => assert!(!(mem(&b, h) && h > x), "C17 right_of: None although a member above x exists"),
    }
    kani::cover!(N == 0 || r.left_of(x).is_some(), "witness: left_of finds a height");
}

fn partitions<const N: usize>() {
    let b = any_bounds::<N>();
    let r = build(&b);
    let (h, h2): (u64, u64) = kani::any();
    match r.partitions() {
        None => assert!(N == 0, "C17 partitions: None on non-empty set"),
        Some((l, m, rr)) => {
            assert!(repr_ok(&l) && repr_ok(&rr), "C17 partitions: representation invariant broken");
            assert!(mem(&b, m), "C17 partitions: middle not a member");
            assert!(mem(&b, h) == (rmem(&l, h) || h == m || rmem(&rr, h)), "C17 partitions: parts do not cover the set");
            assert!(!rmem(&l, h) || h < m, "C17 partitions: left not below middle");
            assert!(!rmem(&rr, h) || h > m, "C17 partitions: right not above middle");
            let (cl, cr) = (rcard(&l), rcard(&rr));
            assert!(cl <= cr + 1 && cr <= cl + 1, "C17 partitions: not balanced");
        }
    }
    kani::cover!(N == 0 || r.partitions().is_some(), "witness: partitions reached");
}

// @verif prop=C17 tier=quick shape="0 stored ranges with free u64 bounds (invariant assumed); op args a,e free u64; probe height free u64" funcs="BlockRanges::insert_relaxed,BlockRanges::find_affected_ranges,BlockRangeExt::{validate,is_adjacent,is_overlapping}"
#[kani::proof]
#[kani::unwind(8)]
#[kani::solver(minisat)]
fn c17_insert_n0() {
    insert::<0>();
}

// @verif prop=C17 tier=quick shape="1 stored ranges with free u64 bounds (invariant assumed); op args a,e free u64; probe height free u64" funcs="BlockRanges::insert_relaxed,BlockRanges::find_affected_ranges,BlockRangeExt::{validate,is_adjacent,is_overlapping}"
#[kani::proof]
#[kani::unwind(8)]
#[kani::solver(minisat)]
fn c17_insert_n1() {
    insert::<1>();
}

// @verif prop=C17 tier=thorough shape="2 stored ranges with free u64 bounds (invariant assumed); op args a,e free u64; probe height free u64" funcs="BlockRanges::insert_relaxed,BlockRanges::find_affected_ranges,BlockRangeExt::{validate,is_adjacent,is_overlapping}"
#[kani::proof]
#[kani::unwind(8)]
#[kani::solver(minisat)]
fn c17_insert_n2() {
    insert::<2>();
}

// @verif prop=C17 tier=thorough shape="3 stored ranges with free u64 bounds (invariant assumed); op args a,e free u64; probe height free u64" funcs="BlockRanges::insert_relaxed,BlockRanges::find_affected_ranges,BlockRangeExt::{validate,is_adjacent,is_overlapping}"
#[kani::proof]
#[kani::unwind(8)]
#[kani::solver(minisat)]
fn c17_insert_n3() {
    insert::<3>();
}

// @verif prop=C17 tier=quick shape="0 stored ranges with free u64 bounds (invariant assumed); op args a,e free u64; probe height free u64" funcs="BlockRanges::remove_relaxed,BlockRanges::find_affected_ranges,BlockRangeExt::{validate,is_adjacent,is_overlapping}"
#[kani::proof]
#[kani::unwind(8)]
#[kani::solver(minisat)]
fn c17_remove_n0() {
    remove::<0>();
}

// @verif prop=C17 tier=quick shape="1 stored ranges with free u64 bounds (invariant assumed); op args a,e free u64; probe height free u64" funcs="BlockRanges::remove_relaxed,BlockRanges::find_affected_ranges,BlockRangeExt::{validate,is_adjacent,is_overlapping}"
#[kani::proof]
#[kani::unwind(8)]
#[kani::solver(minisat)]
fn c17_remove_n1() {
    remove::<1>();
}

// @verif prop=C17 tier=thorough shape="2 stored ranges with free u64 bounds (invariant assumed); op args a,e free u64; probe height free u64" funcs="BlockRanges::remove_relaxed,BlockRanges::find_affected_ranges,BlockRangeExt::{validate,is_adjacent,is_overlapping}"
#[kani::proof]
#[kani::unwind(8)]
#[kani::solver(minisat)]
fn c17_remove_n2() {
    remove::<2>();
}

// @verif prop=C17 tier=thorough shape="3 stored ranges with free u64 bounds (invariant assumed); op args a,e free u64; probe height free u64" funcs="BlockRanges::remove_relaxed,BlockRanges::find_affected_ranges,BlockRangeExt::{validate,is_adjacent,is_overlapping}"
#[kani::proof]
#[kani::unwind(8)]
#[kani::solver(minisat)]
fn c17_remove_n3() {
    remove::<3>();
}

// @verif prop=C17 tier=quick shape="0 stored ranges with free u64 bounds (invariant assumed); ; probe height free u64" funcs="<BlockRanges as Not>::not,BlockRanges::remove_relaxed,BlockRanges::insert_relaxed"
#[kani::proof]
#[kani::unwind(8)]
#[kani::solver(minisat)]
fn c17_complement_n0() {
    complement::<0>();
}

// @verif prop=C17 tier=quick shape="1 stored ranges with free u64 bounds (invariant assumed); ; probe height free u64" funcs="<BlockRanges as Not>::not,BlockRanges::remove_relaxed,BlockRanges::insert_relaxed"
#[kani::proof]
#[kani::unwind(8)]
#[kani::solver(minisat)]
fn c17_complement_n1() {
    complement::<1>();
}

// @verif prop=C17 tier=thorough shape="2 stored ranges with free u64 bounds (invariant assumed); ; probe height free u64" funcs="<BlockRanges as Not>::not,BlockRanges::remove_relaxed,BlockRanges::insert_relaxed"
#[kani::proof]
#[kani::unwind(8)]
#[kani::solver(minisat)]
fn c17_complement_n2() {
    complement::<2>();
}

// @verif prop=C17 tier=thorough shape="3 stored ranges with free u64 bounds (invariant assumed); ; probe height free u64" funcs="<BlockRanges as Not>::not,BlockRanges::remove_relaxed,BlockRanges::insert_relaxed"
#[kani::proof]
#[kani::unwind(8)]
#[kani::solver(minisat)]
fn c17_complement_n3() {
    complement::<3>();
}

// @verif prop=C17 tier=quick shape="0 stored ranges with free u64 bounds (invariant assumed); ; probe height free u64" funcs="BlockRanges::{contains,len,is_empty,head,tail},BlockRangeExt::len"
#[kani::proof]
#[kani::unwind(8)]
#[kani::solver(minisat)]
fn c17_queries_n0() {
    queries::<0>();
}

// @verif prop=C17 tier=quick shape="1 stored ranges with free u64 bounds (invariant assumed); ; probe height free u64" funcs="BlockRanges::{contains,len,is_empty,head,tail},BlockRangeExt::len"
#[kani::proof]
#[kani::unwind(8)]
#[kani::solver(minisat)]
fn c17_queries_n1() {
    queries::<1>();
}

// @verif prop=C17 tier=thorough shape="2 stored ranges with free u64 bounds (invariant assumed); ; probe height free u64" funcs="BlockRanges::{contains,len,is_empty,head,tail},BlockRangeExt::len"
#[kani::proof]
#[kani::unwind(8)]
#[kani::solver(minisat)]
fn c17_queries_n2() {
    queries::<2>();
}

// @verif prop=C17 tier=thorough shape="3 stored ranges with free u64 bounds (invariant assumed); ; probe height free u64" funcs="BlockRanges::{contains,len,is_empty,head,tail},BlockRangeExt::len"
#[kani::proof]
#[kani::unwind(8)]
#[kani::solver(minisat)]
fn c17_queries_n3() {
    queries::<3>();
}

// @verif prop=C17 tier=quick shape="0 stored ranges with free u64 bounds (invariant assumed); ; probe height free u64" funcs="BlockRanges::pop_head,DoubleEndedIterator::next_back"
#[kani::proof]
#[kani::unwind(8)]
#[kani::solver(minisat)]
fn c17_pop_head_n0() {
    pop_head::<0>();
}

// @verif prop=C17 tier=quick shape="1 stored ranges with free u64 bounds (invariant assumed); ; probe height free u64" funcs="BlockRanges::pop_head,DoubleEndedIterator::next_back"
#[kani::proof]
#[kani::unwind(8)]
#[kani::solver(minisat)]
fn c17_pop_head_n1() {
    pop_head::<1>();
}

// @verif prop=C17 tier=thorough shape="2 stored ranges with free u64 bounds (invariant assumed); ; probe height free u64" funcs="BlockRanges::pop_head,DoubleEndedIterator::next_back"
#[kani::proof]
#[kani::unwind(8)]
#[kani::solver(minisat)]
fn c17_pop_head_n2() {
    pop_head::<2>();
}

// @verif prop=C17 tier=thorough shape="3 stored ranges with free u64 bounds (invariant assumed); ; probe height free u64" funcs="BlockRanges::pop_head,DoubleEndedIterator::next_back"
#[kani::proof]
#[kani::unwind(8)]
#[kani::solver(minisat)]
fn c17_pop_head_n3() {
    pop_head::<3>();
}

// @verif prop=C17 tier=quick shape="0 stored ranges with free u64 bounds (invariant assumed); ; probe height free u64" funcs="BlockRanges::pop_tail,Iterator::next"
#[kani::proof]
#[kani::unwind(8)]
#[kani::solver(minisat)]
fn c17_pop_tail_n0() {
    pop_tail::<0>();
}

// @verif prop=C17 tier=quick shape="1 stored ranges with free u64 bounds (invariant assumed); ; probe height free u64" funcs="BlockRanges::pop_tail,Iterator::next"
#[kani::proof]
#[kani::unwind(8)]
#[kani::solver(minisat)]
fn c17_pop_tail_n1() {
    pop_tail::<1>();
}

// @verif prop=C17 tier=thorough shape="2 stored ranges with free u64 bounds (invariant assumed); ; probe height free u64" funcs="BlockRanges::pop_tail,Iterator::next"
#[kani::proof]
#[kani::unwind(8)]
#[kani::solver(minisat)]
fn c17_pop_tail_n2() {
    pop_tail::<2>();
}

// @verif prop=C17 tier=thorough shape="3 stored ranges with free u64 bounds (invariant assumed); ; probe height free u64" funcs="BlockRanges::pop_tail,Iterator::next"
#[kani::proof]
#[kani::unwind(8)]
#[kani::solver(minisat)]
fn c17_pop_tail_n3() {
    pop_tail::<3>();
}

// @verif prop=C17 tier=quick shape="0 stored ranges with free u64 bounds (invariant assumed); limit free u64; probe height free u64" funcs="BlockRanges::headn,BlockRangeExt::headn,BlockRanges::insert_relaxed"
#[kani::proof]
#[kani::unwind(8)]
#[kani::solver(minisat)]
fn c17_headn_n0() {
    headn::<0>();
}

// @verif prop=C17 tier=quick shape="1 stored ranges with free u64 bounds (invariant assumed); limit free u64; probe height free u64" funcs="BlockRanges::headn,BlockRangeExt::headn,BlockRanges::insert_relaxed"
#[kani::proof]
#[kani::unwind(8)]
#[kani::solver(minisat)]
fn c17_headn_n1() {
    headn::<1>();
}

// @verif prop=C17 tier=thorough shape="2 stored ranges with free u64 bounds (invariant assumed); limit free u64; probe height free u64" funcs="BlockRanges::headn,BlockRangeExt::headn,BlockRanges::insert_relaxed"
#[kani::proof]
#[kani::unwind(8)]
#[kani::solver(minisat)]
fn c17_headn_n2() {
    headn::<2>();
}

// @verif prop=C17 tier=thorough shape="3 stored ranges with free u64 bounds (invariant assumed); limit free u64; probe height free u64" funcs="BlockRanges::headn,BlockRangeExt::headn,BlockRanges::insert_relaxed"
#[kani::proof]
#[kani::unwind(8)]
#[kani::solver(minisat)]
fn c17_headn_n3() {
    headn::<3>();
}

// @verif prop=C17 tier=quick shape="0 stored ranges with free u64 bounds (invariant assumed); limit free u64; probe height free u64" funcs="BlockRanges::tailn,BlockRangeExt::tailn,BlockRanges::insert_relaxed"
#[kani::proof]
#[kani::unwind(8)]
#[kani::solver(minisat)]
fn c17_tailn_n0() {
    tailn::<0>();
}

// @verif prop=C17 tier=quick shape="1 stored ranges with free u64 bounds (invariant assumed); limit free u64; probe height free u64" funcs="BlockRanges::tailn,BlockRangeExt::tailn,BlockRanges::insert_relaxed"
#[kani::proof]
#[kani::unwind(8)]
#[kani::solver(minisat)]
fn c17_tailn_n1() {
    tailn::<1>();
}

// @verif prop=C17 tier=thorough shape="2 stored ranges with free u64 bounds (invariant assumed); limit free u64; probe height free u64" funcs="BlockRanges::tailn,BlockRangeExt::tailn,BlockRanges::insert_relaxed"
#[kani::proof]
#[kani::unwind(8)]
#[kani::solver(minisat)]
fn c17_tailn_n2() {
    tailn::<2>();
}

// @verif prop=C17 tier=thorough shape="3 stored ranges with free u64 bounds (invariant assumed); limit free u64; probe height free u64" funcs="BlockRanges::tailn,BlockRangeExt::tailn,BlockRanges::insert_relaxed"
#[kani::proof]
#[kani::unwind(8)]
#[kani::solver(minisat)]
fn c17_tailn_n3() {
    tailn::<3>();
}

// @verif prop=C17 tier=quick shape="0 stored ranges with free u64 bounds (invariant assumed); ; probe height free u64" funcs="BlockRanges::edges,BlockRanges::insert_relaxed"
#[kani::proof]
#[kani::unwind(8)]
#[kani::solver(minisat)]
fn c17_edges_n0() {
    edges::<0>();
}

// @verif prop=C17 tier=quick shape="1 stored ranges with free u64 bounds (invariant assumed); ; probe height free u64" funcs="BlockRanges::edges,BlockRanges::insert_relaxed"
#[kani::proof]
#[kani::unwind(8)]
#[kani::solver(minisat)]
fn c17_edges_n1() {
    edges::<1>();
}

// @verif prop=C17 tier=thorough shape="2 stored ranges with free u64 bounds (invariant assumed); ; probe height free u64" funcs="BlockRanges::edges,BlockRanges::insert_relaxed"
#[kani::proof]
#[kani::unwind(8)]
#[kani::solver(minisat)]
fn c17_edges_n2() {
    edges::<2>();
}

// @verif prop=C17 tier=thorough shape="3 stored ranges with free u64 bounds (invariant assumed); ; probe height free u64" funcs="BlockRanges::edges,BlockRanges::insert_relaxed"
#[kani::proof]
#[kani::unwind(8)]
#[kani::solver(minisat)]
fn c17_edges_n3() {
    edges::<3>();
}

// @verif prop=C17 tier=quick shape="0 stored ranges with free u64 bounds (invariant assumed); x>=1 free u64; probe height free u64" funcs="BlockRanges::{left_of,right_of},BlockRangeExt::{is_left_of,is_right_of}"
#[kani::proof]
#[kani::unwind(8)]
#[kani::solver(minisat)]
fn c17_left_right_of_n0() {
    left_right_of::<0>();
}

// @verif prop=C17 tier=quick shape="1 stored ranges with free u64 bounds (invariant assumed); x>=1 free u64; probe height free u64" funcs="BlockRanges::{left_of,right_of},BlockRangeExt::{is_left_of,is_right_of}"
#[kani::proof]
#[kani::unwind(8)]
#[kani::solver(minisat)]
fn c17_left_right_of_n1() {
    left_right_of::<1>();
}

// @verif prop=C17 tier=thorough shape="2 stored ranges with free u64 bounds (invariant assumed); x>=1 free u64; probe height free u64" funcs="BlockRanges::{left_of,right_of},BlockRangeExt::{is_left_of,is_right_of}"
#[kani::proof]
#[kani::unwind(8)]
#[kani::solver(minisat)]
fn c17_left_right_of_n2() {
    left_right_of::<2>();
}

// @verif prop=C17 tier=thorough shape="3 stored ranges with free u64 bounds (invariant assumed); x>=1 free u64; probe height free u64" funcs="BlockRanges::{left_of,right_of},BlockRangeExt::{is_left_of,is_right_of}"
#[kani::proof]
#[kani::unwind(8)]
#[kani::solver(minisat)]
fn c17_left_right_of_n3() {
    left_right_of::<3>();
}

// @verif prop=C17 tier=quick shape="0 stored ranges with free u64 bounds (invariant assumed); ; probe height free u64" funcs="BlockRanges::partitions,BlockRanges::{len,pop_head,pop_tail,insert_relaxed}"
#[kani::proof]
#[kani::unwind(8)]
#[kani::solver(minisat)]
fn c17_partitions_n0() {
    partitions::<0>();
}

// @verif prop=C17 tier=quick shape="1 stored ranges with free u64 bounds (invariant assumed); ; probe height free u64" funcs="BlockRanges::partitions,BlockRanges::{len,pop_head,pop_tail,insert_relaxed}"
#[kani::proof]
#[kani::unwind(8)]
#[kani::solver(minisat)]
fn c17_partitions_n1() {
    partitions::<1>();
}

// @verif prop=C17 tier=quick shape="operands with 0 and 0 stored ranges, free u64 bounds (invariant assumed); probe height free u64" funcs="<BlockRanges as BitOr>::bitor,AddAssign::add_assign,BlockRanges::insert_relaxed"
#[kani::proof]
#[kani::unwind(8)]
#[kani::solver(minisat)]
fn c17_union_n0_m0() {
    union::<0, 0>();
}

// @verif prop=C17 tier=quick shape="operands with 1 and 0 stored ranges, free u64 bounds (invariant assumed); probe height free u64" funcs="<BlockRanges as BitOr>::bitor,AddAssign::add_assign,BlockRanges::insert_relaxed"
#[kani::proof]
#[kani::unwind(8)]
#[kani::solver(minisat)]
fn c17_union_n1_m0() {
    union::<1, 0>();
}

// @verif prop=C17 tier=quick shape="operands with 0 and 1 stored ranges, free u64 bounds (invariant assumed); probe height free u64" funcs="<BlockRanges as BitOr>::bitor,AddAssign::add_assign,BlockRanges::insert_relaxed"
#[kani::proof]
#[kani::unwind(8)]
#[kani::solver(minisat)]
fn c17_union_n0_m1() {
    union::<0, 1>();
}

// @verif prop=C17 tier=quick shape="operands with 1 and 1 stored ranges, free u64 bounds (invariant assumed); probe height free u64" funcs="<BlockRanges as BitOr>::bitor,AddAssign::add_assign,BlockRanges::insert_relaxed"
#[kani::proof]
#[kani::unwind(8)]
#[kani::solver(minisat)]
fn c17_union_n1_m1() {
    union::<1, 1>();
}

// @verif prop=C17 tier=thorough shape="operands with 2 and 1 stored ranges, free u64 bounds (invariant assumed); probe height free u64" funcs="<BlockRanges as BitOr>::bitor,AddAssign::add_assign,BlockRanges::insert_relaxed"
#[kani::proof]
#[kani::unwind(8)]
#[kani::solver(minisat)]
fn c17_union_n2_m1() {
    union::<2, 1>();
}

// @verif prop=C17 tier=thorough shape="operands with 1 and 2 stored ranges, free u64 bounds (invariant assumed); probe height free u64" funcs="<BlockRanges as BitOr>::bitor,AddAssign::add_assign,BlockRanges::insert_relaxed"
#[kani::proof]
#[kani::unwind(8)]
#[kani::solver(minisat)]
fn c17_union_n1_m2() {
    union::<1, 2>();
}

// @verif prop=C17 tier=thorough shape="operands with 2 and 2 stored ranges, free u64 bounds (invariant assumed); probe height free u64" funcs="<BlockRanges as BitOr>::bitor,AddAssign::add_assign,BlockRanges::insert_relaxed"
#[kani::proof]
#[kani::unwind(8)]
#[kani::solver(minisat)]
fn c17_union_n2_m2() {
    union::<2, 2>();
}

// @verif prop=C17 tier=thorough shape="operands with 1 and 1 stored ranges, free u64 bounds (invariant assumed); probe height free u64" funcs="<BlockRanges as AddAssign<&BlockRanges>>::add_assign,BlockRanges::insert_relaxed"
#[kani::proof]
#[kani::unwind(8)]
#[kani::solver(minisat)]
fn c17_add_n1_m1() {
    add::<1, 1>();
}

// @verif prop=C17 tier=thorough shape="operands with 2 and 1 stored ranges, free u64 bounds (invariant assumed); probe height free u64" funcs="<BlockRanges as AddAssign<&BlockRanges>>::add_assign,BlockRanges::insert_relaxed"
#[kani::proof]
#[kani::unwind(8)]
#[kani::solver(minisat)]
fn c17_add_n2_m1() {
    add::<2, 1>();
}

// @verif prop=C17 tier=quick shape="operands with 0 and 0 stored ranges, free u64 bounds (invariant assumed); probe height free u64" funcs="<BlockRanges as Sub>::sub,SubAssign::sub_assign,BlockRanges::remove_relaxed"
#[kani::proof]
#[kani::unwind(8)]
#[kani::solver(minisat)]
fn c17_difference_n0_m0() {
    difference::<0, 0>();
}

// @verif prop=C17 tier=quick shape="operands with 1 and 0 stored ranges, free u64 bounds (invariant assumed); probe height free u64" funcs="<BlockRanges as Sub>::sub,SubAssign::sub_assign,BlockRanges::remove_relaxed"
#[kani::proof]
#[kani::unwind(8)]
#[kani::solver(minisat)]
fn c17_difference_n1_m0() {
    difference::<1, 0>();
}

// @verif prop=C17 tier=quick shape="operands with 0 and 1 stored ranges, free u64 bounds (invariant assumed); probe height free u64" funcs="<BlockRanges as Sub>::sub,SubAssign::sub_assign,BlockRanges::remove_relaxed"
#[kani::proof]
#[kani::unwind(8)]
#[kani::solver(minisat)]
fn c17_difference_n0_m1() {
    difference::<0, 1>();
}

// @verif prop=C17 tier=quick shape="operands with 1 and 1 stored ranges, free u64 bounds (invariant assumed); probe height free u64" funcs="<BlockRanges as Sub>::sub,SubAssign::sub_assign,BlockRanges::remove_relaxed"
#[kani::proof]
#[kani::unwind(8)]
#[kani::solver(minisat)]
fn c17_difference_n1_m1() {
    difference::<1, 1>();
}

// @verif prop=C17 tier=thorough shape="operands with 2 and 1 stored ranges, free u64 bounds (invariant assumed); probe height free u64" funcs="<BlockRanges as Sub>::sub,SubAssign::sub_assign,BlockRanges::remove_relaxed"
#[kani::proof]
#[kani::unwind(8)]
#[kani::solver(minisat)]
fn c17_difference_n2_m1() {
    difference::<2, 1>();
}

// @verif prop=C17 tier=thorough shape="operands with 1 and 2 stored ranges, free u64 bounds (invariant assumed); probe height free u64" funcs="<BlockRanges as Sub>::sub,SubAssign::sub_assign,BlockRanges::remove_relaxed"
#[kani::proof]
#[kani::unwind(8)]
#[kani::solver(minisat)]
fn c17_difference_n1_m2() {
    difference::<1, 2>();
}

// @verif prop=C17 tier=thorough shape="operands with 2 and 2 stored ranges, free u64 bounds (invariant assumed); probe height free u64" funcs="<BlockRanges as Sub>::sub,SubAssign::sub_assign,BlockRanges::remove_relaxed"
#[kani::proof]
#[kani::unwind(8)]
#[kani::solver(minisat)]
fn c17_difference_n2_m2() {
    difference::<2, 2>();
}

// @verif prop=C17 tier=quick shape="operands with 0 and 0 stored ranges, free u64 bounds (invariant assumed); probe height free u64; complement and union replaced by their contracts at the probe height" funcs="<BlockRanges as BitAnd>::bitand,<BlockRanges as BitAndAssign<&BlockRanges>>::bitand_assign"
#[kani::proof]
#[kani::unwind(8)]
#[kani::solver(cadical)]
#[kani::stub(<BlockRanges as std::ops::Not>::not, not_contract)]
#[kani::stub(<BlockRanges as std::ops::BitOr<BlockRanges>>::bitor, bitor_contract)]
fn c17_intersection_n0_m0() {
    intersection::<0, 0>();
}

// @verif prop=C17 tier=quick shape="operands with 1 and 0 stored ranges, free u64 bounds (invariant assumed); probe height free u64; complement and union replaced by their contracts at the probe height" funcs="<BlockRanges as BitAnd>::bitand,<BlockRanges as BitAndAssign<&BlockRanges>>::bitand_assign"
#[kani::proof]
#[kani::unwind(8)]
#[kani::solver(cadical)]
#[kani::stub(<BlockRanges as std::ops::Not>::not, not_contract)]
#[kani::stub(<BlockRanges as std::ops::BitOr<BlockRanges>>::bitor, bitor_contract)]
fn c17_intersection_n1_m0() {
    intersection::<1, 0>();
}

// @verif prop=C17 tier=quick shape="operands with 0 and 1 stored ranges, free u64 bounds (invariant assumed); probe height free u64; complement and union replaced by their contracts at the probe height" funcs="<BlockRanges as BitAnd>::bitand,<BlockRanges as BitAndAssign<&BlockRanges>>::bitand_assign"
#[kani::proof]
#[kani::unwind(8)]
#[kani::solver(cadical)]
#[kani::stub(<BlockRanges as std::ops::Not>::not, not_contract)]
#[kani::stub(<BlockRanges as std::ops::BitOr<BlockRanges>>::bitor, bitor_contract)]
fn c17_intersection_n0_m1() {
    intersection::<0, 1>();
}

// @verif prop=C17 tier=quick shape="operands with 1 and 1 stored ranges, free u64 bounds (invariant assumed); probe height free u64; complement and union replaced by their contracts at the probe height" funcs="<BlockRanges as BitAnd>::bitand,<BlockRanges as BitAndAssign<&BlockRanges>>::bitand_assign"
#[kani::proof]
#[kani::unwind(8)]
#[kani::solver(cadical)]
#[kani::stub(<BlockRanges as std::ops::Not>::not, not_contract)]
#[kani::stub(<BlockRanges as std::ops::BitOr<BlockRanges>>::bitor, bitor_contract)]
fn c17_intersection_n1_m1() {
    intersection::<1, 1>();
}

// @verif prop=C17 tier=thorough shape="operands with 2 and 1 stored ranges, free u64 bounds (invariant assumed); probe height free u64; complement and union replaced by their contracts at the probe height" funcs="<BlockRanges as BitAnd>::bitand,<BlockRanges as BitAndAssign<&BlockRanges>>::bitand_assign"
#[kani::proof]
#[kani::unwind(8)]
#[kani::solver(cadical)]
#[kani::stub(<BlockRanges as std::ops::Not>::not, not_contract)]
#[kani::stub(<BlockRanges as std::ops::BitOr<BlockRanges>>::bitor, bitor_contract)]
fn c17_intersection_n2_m1() {
    intersection::<2, 1>();
}

// @verif prop=C17 tier=thorough shape="operands with 1 and 2 stored ranges, free u64 bounds (invariant assumed); probe height free u64; complement and union replaced by their contracts at the probe height" funcs="<BlockRanges as BitAnd>::bitand,<BlockRanges as BitAndAssign<&BlockRanges>>::bitand_assign"
#[kani::proof]
#[kani::unwind(8)]
#[kani::solver(cadical)]
#[kani::stub(<BlockRanges as std::ops::Not>::not, not_contract)]
#[kani::stub(<BlockRanges as std::ops::BitOr<BlockRanges>>::bitor, bitor_contract)]
fn c17_intersection_n1_m2() {
    intersection::<1, 2>();
}

// @verif prop=C17 tier=thorough shape="operands with 2 and 2 stored ranges, free u64 bounds (invariant assumed); probe height free u64; complement and union replaced by their contracts at the probe height" funcs="<BlockRanges as BitAnd>::bitand,<BlockRanges as BitAndAssign<&BlockRanges>>::bitand_assign"
#[kani::proof]
#[kani::unwind(8)]
#[kani::solver(cadical)]
#[kani::stub(<BlockRanges as std::ops::Not>::not, not_contract)]
#[kani::stub(<BlockRanges as std::ops::BitOr<BlockRanges>>::bitor, bitor_contract)]
fn c17_intersection_n2_m2() {
    intersection::<2, 2>();
}
