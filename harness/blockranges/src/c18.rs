//! C18: store insertion constraints admit exactly the legal ranges.
use crate::block_ranges::{BlockRange, BlockRanges, BlockRangesError};
use crate::common::*;

fn check<const N: usize>() {
    let b = any_bounds::<N>();
    let r = build(&b);
    let a: u64 = kani::any();
    let e: u64 = kani::any();
    let res = r.check_insertion_constraints(a..=e);

    // reference predicate, straight from the property statement
    let valid = a >= 1 && a <= e;
    // "shares no height with the stored ranges" for an interval [a,e] against intervals
    let mut shares = false;
    let mut i = 0;
    while i < N {
        shares = shares || (b[i].0 <= e && a <= b[i].1);
        i += 1;
    }
    let below_stored = valid && a > 1 && mem(&b, a - 1);
    let above_stored = valid && e < u64::MAX && mem(&b, e + 1);
    let empty = N == 0;
    let above_all = N > 0 && a > b[N - 1].1;
    let legal = valid && !shares && (empty || above_all || below_stored || above_stored);

    match res {
        Ok((l, rr)) => {
            assert!(legal, "C18: admitted a range that is not legal");
            assert!(l == below_stored, "C18: left flag wrong");
            assert!(rr == above_stored, "C18: right flag wrong");
        }
        Err(err) => {
            assert!(!legal, "C18: rejected a legal range");
            match err {
                BlockRangesError::InvalidBlockRange(_) => assert!(!valid, "C18: error kind (invalid)"),
                BlockRangesError::BlockRangeOverlap(..) => assert!(valid && shares, "C18: error kind (overlap)"),
                BlockRangesError::NoAdjacentNeighbors(_) => assert!(valid && !shares, "C18: error kind (no neighbours)"),
                _ => assert!(false, "C18: unexpected error kind"),
            }
        }
    }
    kani::cover!(legal, "witness: legal insertion reachable");
    kani::cover!(!legal, "witness: illegal insertion reachable");
}

// @verif prop=C18 tier=quick shape="0 stored ranges, candidate a..=e free u64" funcs="BlockRanges::check_insertion_constraints,BlockRangeExt::validate"
#[kani::proof]
#[kani::unwind(8)]
#[kani::solver(minisat)]
fn c18_constraints_n0() {
    check::<0>();
}

// @verif prop=C18 tier=quick shape="1 stored range (free u64 bounds), candidate a..=e free u64" funcs="BlockRanges::check_insertion_constraints,BlockRanges::find_affected_ranges,BlockRangeExt::{is_adjacent,is_overlapping,is_left_of}"
#[kani::proof]
#[kani::unwind(8)]
#[kani::solver(minisat)]
fn c18_constraints_n1() {
    check::<1>();
}

// @verif prop=C18 tier=quick shape="2 stored ranges (free u64 bounds), candidate a..=e free u64" funcs="BlockRanges::check_insertion_constraints,BlockRanges::find_affected_ranges,calc_overlap"
#[kani::proof]
#[kani::unwind(8)]
#[kani::solver(minisat)]
fn c18_constraints_n2() {
    check::<2>();
}

// @verif prop=C18 tier=quick shape="3 stored ranges (free u64 bounds), candidate a..=e free u64" funcs="BlockRanges::check_insertion_constraints,BlockRanges::find_affected_ranges,calc_overlap"
#[kani::proof]
#[kani::unwind(8)]
#[kani::solver(minisat)]
fn c18_constraints_n3() {
    check::<3>();
}

// @verif prop=C18 tier=thorough shape="4 stored ranges (free u64 bounds), candidate a..=e free u64" funcs="BlockRanges::check_insertion_constraints,BlockRanges::find_affected_ranges,calc_overlap"
#[kani::proof]
#[kani::unwind(8)]
#[kani::solver(minisat)]
fn c18_constraints_n4() {
    check::<4>();
}

// @verif prop=C18 tier=thorough shape="5 stored ranges (free u64 bounds), candidate a..=e free u64" funcs="BlockRanges::check_insertion_constraints,BlockRanges::find_affected_ranges,calc_overlap"
#[kani::proof]
#[kani::unwind(8)]
#[kani::solver(minisat)]
fn c18_constraints_n5() {
    check::<5>();
}
