//! Mode B: `/repo/node/src/block_ranges.rs` compiled verbatim as a module of this crate,
//! against the array-backed `smallvec` model (crate `vh-blockranges`) or against the real
//! `smallvec` (crate `vh-blockranges-native`, same sources; used to replay counterexamples
//! and to cross-check the model with the repository's own unit tests).
#![allow(unused, dead_code)]

// generated at run time by vlib/slicegen.py: verbatim copy of /repo/node/src/block_ranges.rs + accessor module
#[path = "generated/block_ranges.rs"]
pub mod block_ranges;

/// The repository's unit tests in `block_ranges.rs` import this helper from `crate::test_utils`.
#[cfg(test)]
pub mod test_utils {
    use crate::block_ranges::{BlockRange, BlockRanges};
    pub fn new_block_ranges<const N: usize>(ranges: [BlockRange; N]) -> BlockRanges {
        BlockRanges::from_vec(ranges.into_iter().collect()).expect("invalid BlockRanges")
    }
}

#[cfg(kani)]
mod common;
#[cfg(kani)]
mod c17;
#[cfg(kani)]
mod c18;
