//! Verification model of `smallvec::SmallVec`.
//!
//! The real SmallVec stores its elements in a `union` of an inline buffer and a heap
//! pointer and moves them with `ptr::copy` over a symbolic count, which CBMC cannot
//! encode within memory (measured: > 14 GB for a single insert). This model keeps the
//! same observable sequence semantics (a `Vec`-like ordered sequence) in a fully typed
//! fixed array `[T; CAP]` plus a length, with explicit element-by-element moves.
//!
//! Exceeding `CAP` elements is an assertion failure (reported by the checker, never
//! silently ignored).
#![allow(clippy::all)]

use std::ops::{Deref, DerefMut, RangeInclusive};

/// Capacity of the model: 6 under Kani (stated bound of every Mode B claim), 64 when the
/// model is exercised natively by the repository's own unit tests (model validation).
pub const CAP: usize = if cfg!(kani) { 6 } else { 64 };

/// Element types need a value to fill unused slots with.
pub trait Filler {
    fn filler() -> Self;
}

impl Filler for RangeInclusive<u64> {
    fn filler() -> Self {
        1..=0
    }
}
impl Filler for u64 {
    fn filler() -> Self {
        0
    }
}
impl Filler for u8 {
    fn filler() -> Self {
        0
    }
}

pub trait Array {
    type Item;
}

impl<T, const N: usize> Array for [T; N] {
    type Item = T;
}

pub struct SmallVec<A: Array>
where
    A::Item: Filler + Clone,
{
    buf: [A::Item; CAP],
    len: usize,
}

impl<A: Array> SmallVec<A>
where
    A::Item: Filler + Clone,
{
    pub fn new() -> Self {
        SmallVec {
            buf: std::array::from_fn(|_| A::Item::filler()),
            len: 0,
        }
    }

    // ---------------------------------------------------------------------------------------
    // Discipline of this model: the backing array is only ever accessed with indices that are
    // CONSTANT after loop unwinding (loop counters running over 0..CAP); a symbolic position is
    // compared against the counter. A symbolic index into an array of structs makes CBMC emit
    // byte-extract/byte-update barrel shifters over the whole object (measured: 2.1 M SAT
    // variables for one insert), a guarded constant-index access does not.
    // ---------------------------------------------------------------------------------------

    /// Reference to the element at (possibly symbolic) position `idx`.
    fn at(&self, idx: usize) -> &A::Item {
        let mut i = 0;
        while i < CAP {
            if i == idx {
                return &self.buf[i];
            }
            i += 1;
        }
        panic!("smallvec model: index out of bounds");
    }

    fn at_mut(&mut self, idx: usize) -> &mut A::Item {
        let mut i = 0;
        while i < CAP {
            if i == idx {
                return &mut self.buf[i];
            }
            i += 1;
        }
        panic!("smallvec model: index out of bounds");
    }

    fn set(&mut self, idx: usize, value: A::Item) {
        let mut i = 0;
        while i < CAP {
            if i == idx {
                self.buf[i] = value;
                return;
            }
            i += 1;
        }
        panic!("smallvec model: index out of bounds");
    }

    pub fn len(&self) -> usize {
        self.len
    }

    pub fn is_empty(&self) -> bool {
        self.len == 0
    }

    pub fn push(&mut self, value: A::Item) {
        assert!(self.len < CAP, "smallvec model capacity exceeded");
        let l = self.len;
        self.set(l, value);
        self.len += 1;
    }

    pub fn pop(&mut self) -> Option<A::Item> {
        if self.len == 0 {
            return None;
        }
        self.len -= 1;
        let l = self.len;
        Some(std::mem::replace(self.at_mut(l), A::Item::filler()))
    }

    pub fn insert(&mut self, index: usize, value: A::Item) {
        assert!(index <= self.len, "insertion index out of bounds");
        assert!(self.len < CAP, "smallvec model capacity exceeded");
        let mut i = CAP - 1;
        while i > 0 {
            if i > index && i <= self.len {
                self.buf[i] = self.buf[i - 1].clone();
            }
            i -= 1;
        }
        self.set(index, value);
        self.len += 1;
    }

    pub fn remove(&mut self, index: usize) -> A::Item {
        assert!(index < self.len, "removal index out of bounds");
        let out = self.at(index).clone();
        let mut i = 0;
        while i + 1 < CAP {
            if i >= index && i + 1 < self.len {
                self.buf[i] = self.buf[i + 1].clone();
            }
            i += 1;
        }
        self.len -= 1;
        let l = self.len;
        self.set(l, A::Item::filler());
        out
    }

    /// Removes `range` from the vector and returns the removed elements.
    ///
    /// Unlike the real `drain` the removal happens eagerly; every caller in lumina
    /// either drops the iterator at once or collects it, so this is unobservable.
    pub fn drain(&mut self, range: RangeInclusive<usize>) -> Drain<A> {
        let start = *range.start();
        let end = *range.end();
        assert!(start <= end + 1, "drain: start after end");
        assert!(end < self.len, "drain: end out of bounds");
        let count = end + 1 - start;
        let mut removed = SmallVec::<A>::new();
        // removed[k - start] = buf[k] for start <= k <= end
        let mut k = 0;
        while k < CAP {
            if k >= start && k <= end {
                removed.push(self.buf[k].clone());
            }
            k += 1;
        }
        // shift the tail down by `count`: buf[j] = buf[j + count]
        let old_len = self.len;
        let mut j = 0;
        while j < CAP {
            if j >= start && j + count < old_len {
                let mut src = j + 1;
                while src < CAP {
                    if src == j + count {
                        self.buf[j] = self.buf[src].clone();
                    }
                    src += 1;
                }
            }
            j += 1;
        }
        let new_len = old_len - count;
        let mut z = 0;
        while z < CAP {
            if z >= new_len && z < old_len {
                self.buf[z] = A::Item::filler();
            }
            z += 1;
        }
        self.len = new_len;
        Drain { items: removed, pos: 0 }
    }

    /// Index-based iterator (shadows `<[T]>::iter` reached through `Deref`): the slice
    /// iterator is a pair of raw pointers, which is far more expensive for CBMC than an index.
    pub fn iter(&self) -> Iter<'_, A> {
        Iter { v: self, pos: 0, end: self.len }
    }

    pub fn first(&self) -> Option<&A::Item> {
        if self.len == 0 { None } else { Some(&self.buf[0]) }
    }

    pub fn last(&self) -> Option<&A::Item> {
        if self.len == 0 { None } else { Some(self.at(self.len - 1)) }
    }

    pub fn first_mut(&mut self) -> Option<&mut A::Item> {
        if self.len == 0 { None } else { Some(&mut self.buf[0]) }
    }

    pub fn last_mut(&mut self) -> Option<&mut A::Item> {
        if self.len == 0 {
            None
        } else {
            let i = self.len - 1;
            Some(self.at_mut(i))
        }
    }

    pub fn as_slice(&self) -> &[A::Item] {
        &self.buf[..self.len]
    }

    pub fn as_mut_slice(&mut self) -> &mut [A::Item] {
        &mut self.buf[..self.len]
    }

    pub fn clear(&mut self) {
        let mut i = 0;
        while i < CAP {
            if i < self.len {
                self.buf[i] = A::Item::filler();
            }
            i += 1;
        }
        self.len = 0;
    }
}

pub struct Iter<'a, A: Array>
where
    A::Item: Filler + Clone,
{
    v: &'a SmallVec<A>,
    pos: usize,
    end: usize,
}

impl<'a, A: Array> Iterator for Iter<'a, A>
where
    A::Item: Filler + Clone,
{
    type Item = &'a A::Item;
    fn next(&mut self) -> Option<&'a A::Item> {
        if self.pos < self.end {
            let i = self.pos;
            self.pos += 1;
            Some(self.v.at(i))
        } else {
            None
        }
    }
    fn size_hint(&self) -> (usize, Option<usize>) {
        let n = self.end - self.pos;
        (n, Some(n))
    }
}

impl<'a, A: Array> DoubleEndedIterator for Iter<'a, A>
where
    A::Item: Filler + Clone,
{
    fn next_back(&mut self) -> Option<&'a A::Item> {
        if self.pos < self.end {
            self.end -= 1;
            Some(self.v.at(self.end))
        } else {
            None
        }
    }
}

impl<'a, A: Array> ExactSizeIterator for Iter<'a, A> where A::Item: Filler + Clone {}

impl<A: Array> std::ops::Index<usize> for SmallVec<A>
where
    A::Item: Filler + Clone,
{
    type Output = A::Item;
    fn index(&self, i: usize) -> &A::Item {
        assert!(i < self.len, "index out of bounds");
        self.at(i)
    }
}

impl<A: Array> std::ops::IndexMut<usize> for SmallVec<A>
where
    A::Item: Filler + Clone,
{
    fn index_mut(&mut self, i: usize) -> &mut A::Item {
        assert!(i < self.len, "index out of bounds");
        self.at_mut(i)
    }
}

impl<A: Array> std::ops::Index<std::ops::RangeFull> for SmallVec<A>
where
    A::Item: Filler + Clone,
{
    type Output = [A::Item];
    fn index(&self, _: std::ops::RangeFull) -> &[A::Item] {
        self.as_slice()
    }
}

pub struct Drain<A: Array>
where
    A::Item: Filler + Clone,
{
    items: SmallVec<A>,
    pos: usize,
}

impl<A: Array> Iterator for Drain<A>
where
    A::Item: Filler + Clone,
{
    type Item = A::Item;
    fn next(&mut self) -> Option<A::Item> {
        if self.pos < self.items.len {
            let v = self.items.at(self.pos).clone();
            self.pos += 1;
            Some(v)
        } else {
            None
        }
    }
}

impl<A: Array> Default for SmallVec<A>
where
    A::Item: Filler + Clone,
{
    fn default() -> Self {
        Self::new()
    }
}

impl<A: Array> Clone for SmallVec<A>
where
    A::Item: Filler + Clone,
{
    fn clone(&self) -> Self {
        let mut out = Self::new();
        let mut i = 0;
        while i < CAP {
            if i < self.len {
                out.buf[i] = self.buf[i].clone();
            }
            i += 1;
        }
        out.len = self.len;
        out
    }
}

impl<A: Array> PartialEq for SmallVec<A>
where
    A::Item: Filler + Clone + PartialEq,
{
    fn eq(&self, other: &Self) -> bool {
        if self.len != other.len {
            return false;
        }
        let mut i = 0;
        while i < CAP {
            if i < self.len && self.buf[i] != other.buf[i] {
                return false;
            }
            i += 1;
        }
        true
    }
}

impl<A: Array> std::fmt::Debug for SmallVec<A>
where
    A::Item: Filler + Clone + std::fmt::Debug,
{
    fn fmt(&self, f: &mut std::fmt::Formatter<'_>) -> std::fmt::Result {
        f.debug_list().entries(self.as_slice().iter()).finish()
    }
}

impl<A: Array> Deref for SmallVec<A>
where
    A::Item: Filler + Clone,
{
    type Target = [A::Item];
    fn deref(&self) -> &[A::Item] {
        self.as_slice()
    }
}

impl<A: Array> DerefMut for SmallVec<A>
where
    A::Item: Filler + Clone,
{
    fn deref_mut(&mut self) -> &mut [A::Item] {
        self.as_mut_slice()
    }
}

impl<A: Array> FromIterator<A::Item> for SmallVec<A>
where
    A::Item: Filler + Clone,
{
    fn from_iter<I: IntoIterator<Item = A::Item>>(iter: I) -> Self {
        let mut out = Self::new();
        for v in iter {
            out.push(v);
        }
        out
    }
}

impl<'a, A: Array> IntoIterator for &'a SmallVec<A>
where
    A::Item: Filler + Clone,
{
    type Item = &'a A::Item;
    type IntoIter = Iter<'a, A>;
    fn into_iter(self) -> Self::IntoIter {
        self.iter()
    }
}

pub struct IntoIter<A: Array>
where
    A::Item: Filler + Clone,
{
    items: SmallVec<A>,
    pos: usize,
}

impl<A: Array> Iterator for IntoIter<A>
where
    A::Item: Filler + Clone,
{
    type Item = A::Item;
    fn next(&mut self) -> Option<A::Item> {
        if self.pos < self.items.len {
            let v = self.items.at(self.pos).clone();
            self.pos += 1;
            Some(v)
        } else {
            None
        }
    }
}

impl<A: Array> IntoIterator for SmallVec<A>
where
    A::Item: Filler + Clone,
{
    type Item = A::Item;
    type IntoIter = IntoIter<A>;
    fn into_iter(self) -> IntoIter<A> {
        IntoIter { items: self, pos: 0 }
    }
}

impl<A: Array> serde::Serialize for SmallVec<A>
where
    A::Item: Filler + Clone + serde::Serialize,
{
    fn serialize<S: serde::Serializer>(&self, serializer: S) -> Result<S::Ok, S::Error> {
        serializer.collect_seq(self.as_slice().iter())
    }
}

impl<'de, A: Array> serde::Deserialize<'de> for SmallVec<A>
where
    A::Item: Filler + Clone + serde::Deserialize<'de>,
{
    fn deserialize<D: serde::Deserializer<'de>>(deserializer: D) -> Result<Self, D::Error> {
        let v = Vec::<A::Item>::deserialize(deserializer)?;
        Ok(v.into_iter().collect())
    }
}

#[macro_export]
macro_rules! smallvec {
    () => { $crate::SmallVec::new() };
    ($($x:expr),+ $(,)?) => {{
        let mut v = $crate::SmallVec::new();
        $( v.push($x); )+
        v
    }};
}
