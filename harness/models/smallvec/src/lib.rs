//! Verification model of `smallvec::SmallVec`.
//!
//! The real SmallVec stores its elements in a `union` of an inline buffer and a heap
//! pointer and moves them with `ptr::copy` over a symbolic count, which CBMC cannot
//! encode within memory (measured: > 14 GB for a single insert). This model keeps the
//! same observable sequence semantics (a `Vec`-like ordered sequence) in a fully typed
//! fixed array `[T; CAP]` plus a length, with explicit element-by-element moves.
//!
//! Exceeding `CAP` elements is an assertion failure (reported by the checker, never
//! silently ignored).
#![allow(clippy::all)]

use std::ops::{Deref, DerefMut, RangeInclusive};

/// Capacity of the model: 6 under Kani (stated bound of every Mode B claim), 64 when the
/// model is exercised natively by the repository's own unit tests (model validation).
pub const CAP: usize = if cfg!(kani) { 6 } else { 64 };

/// Element types need a value to fill unused slots with.
pub trait Filler {
    fn filler() -> Self;
}

impl Filler for RangeInclusive<u64> {
    fn filler() -> Self {
        1..=0
    }
}
impl Filler for u64 {
    fn filler() -> Self {
        0
    }
}
impl Filler for u8 {
    fn filler() -> Self {
        0
    }
}

pub trait Array {
    type Item;
}

impl<T, const N: usize> Array for [T; N] {
    type Item = T;
}

pub struct SmallVec<A: Array>
where
    A::Item: Filler + Clone,
{
    buf: [A::Item; CAP],
    len: usize,
}

impl<A: Array> SmallVec<A>
where
    A::Item: Filler + Clone,
{
    pub fn new() -> Self {
        SmallVec {
            buf: std::array::from_fn(|_| A::Item::filler()),
            len: 0,
        }
    }

    pub fn len(&self) -> usize {
        self.len
    }

    pub fn is_empty(&self) -> bool {
        self.len == 0
    }

    pub fn push(&mut self, value: A::Item) {
        assert!(self.len < CAP, "smallvec model capacity exceeded");
        self.buf[self.len] = value;
        self.len += 1;
    }

    pub fn pop(&mut self) -> Option<A::Item> {
        if self.len == 0 {
            return None;
        }
        self.len -= 1;
        Some(std::mem::replace(&mut self.buf[self.len], A::Item::filler()))
    }

    pub fn insert(&mut self, index: usize, value: A::Item) {
        assert!(index <= self.len, "insertion index out of bounds");
        assert!(self.len < CAP, "smallvec model capacity exceeded");
        let mut i = self.len;
        while i > index {
            self.buf[i] = self.buf[i - 1].clone();
            i -= 1;
        }
        self.buf[index] = value;
        self.len += 1;
    }

    pub fn remove(&mut self, index: usize) -> A::Item {
        assert!(index < self.len, "removal index out of bounds");
        let out = self.buf[index].clone();
        let mut i = index;
        while i + 1 < self.len {
            self.buf[i] = self.buf[i + 1].clone();
            i += 1;
        }
        self.len -= 1;
        self.buf[self.len] = A::Item::filler();
        out
    }

    /// Removes `range` from the vector and returns the removed elements.
    ///
    /// Unlike the real `drain` the removal happens eagerly; every caller in lumina
    /// either drops the iterator at once or collects it, so this is unobservable.
    pub fn drain(&mut self, range: RangeInclusive<usize>) -> Drain<A> {
        let start = *range.start();
        let end = *range.end();
        assert!(start <= end + 1, "drain: start after end");
        assert!(end < self.len, "drain: end out of bounds");
        let count = end + 1 - start;
        let mut removed = SmallVec::<A>::new();
        let mut i = start;
        while i <= end {
            removed.push(self.buf[i].clone());
            i += 1;
        }
        let mut j = start;
        while j + count < self.len {
            self.buf[j] = self.buf[j + count].clone();
            j += 1;
        }
        let new_len = self.len - count;
        let mut k = new_len;
        while k < self.len {
            self.buf[k] = A::Item::filler();
            k += 1;
        }
        self.len = new_len;
        Drain { items: removed, pos: 0 }
    }

    pub fn as_slice(&self) -> &[A::Item] {
        &self.buf[..self.len]
    }

    pub fn as_mut_slice(&mut self) -> &mut [A::Item] {
        &mut self.buf[..self.len]
    }

    pub fn clear(&mut self) {
        while self.len > 0 {
            self.len -= 1;
            self.buf[self.len] = A::Item::filler();
        }
    }
}

pub struct Drain<A: Array>
where
    A::Item: Filler + Clone,
{
    items: SmallVec<A>,
    pos: usize,
}

impl<A: Array> Iterator for Drain<A>
where
    A::Item: Filler + Clone,
{
    type Item = A::Item;
    fn next(&mut self) -> Option<A::Item> {
        if self.pos < self.items.len {
            let v = self.items.buf[self.pos].clone();
            self.pos += 1;
            Some(v)
        } else {
            None
        }
    }
}

impl<A: Array> Default for SmallVec<A>
where
    A::Item: Filler + Clone,
{
    fn default() -> Self {
        Self::new()
    }
}

impl<A: Array> Clone for SmallVec<A>
where
    A::Item: Filler + Clone,
{
    fn clone(&self) -> Self {
        let mut out = Self::new();
        let mut i = 0;
        while i < self.len {
            out.buf[i] = self.buf[i].clone();
            i += 1;
        }
        out.len = self.len;
        out
    }
}

impl<A: Array> PartialEq for SmallVec<A>
where
    A::Item: Filler + Clone + PartialEq,
{
    fn eq(&self, other: &Self) -> bool {
        if self.len != other.len {
            return false;
        }
        let mut i = 0;
        while i < self.len {
            if self.buf[i] != other.buf[i] {
                return false;
            }
            i += 1;
        }
        true
    }
}

impl<A: Array> std::fmt::Debug for SmallVec<A>
where
    A::Item: Filler + Clone + std::fmt::Debug,
{
    fn fmt(&self, f: &mut std::fmt::Formatter<'_>) -> std::fmt::Result {
        f.debug_list().entries(self.as_slice().iter()).finish()
    }
}

impl<A: Array> Deref for SmallVec<A>
where
    A::Item: Filler + Clone,
{
    type Target = [A::Item];
    fn deref(&self) -> &[A::Item] {
        self.as_slice()
    }
}

impl<A: Array> DerefMut for SmallVec<A>
where
    A::Item: Filler + Clone,
{
    fn deref_mut(&mut self) -> &mut [A::Item] {
        self.as_mut_slice()
    }
}

impl<A: Array> FromIterator<A::Item> for SmallVec<A>
where
    A::Item: Filler + Clone,
{
    fn from_iter<I: IntoIterator<Item = A::Item>>(iter: I) -> Self {
        let mut out = Self::new();
        for v in iter {
            out.push(v);
        }
        out
    }
}

impl<'a, A: Array> IntoIterator for &'a SmallVec<A>
where
    A::Item: Filler + Clone,
{
    type Item = &'a A::Item;
    type IntoIter = std::slice::Iter<'a, A::Item>;
    fn into_iter(self) -> Self::IntoIter {
        self.as_slice().iter()
    }
}

pub struct IntoIter<A: Array>
where
    A::Item: Filler + Clone,
{
    items: SmallVec<A>,
    pos: usize,
}

impl<A: Array> Iterator for IntoIter<A>
where
    A::Item: Filler + Clone,
{
    type Item = A::Item;
    fn next(&mut self) -> Option<A::Item> {
        if self.pos < self.items.len {
            let v = self.items.buf[self.pos].clone();
            self.pos += 1;
            Some(v)
        } else {
            None
        }
    }
}

impl<A: Array> IntoIterator for SmallVec<A>
where
    A::Item: Filler + Clone,
{
    type Item = A::Item;
    type IntoIter = IntoIter<A>;
    fn into_iter(self) -> IntoIter<A> {
        IntoIter { items: self, pos: 0 }
    }
}

impl<A: Array> serde::Serialize for SmallVec<A>
where
    A::Item: Filler + Clone + serde::Serialize,
{
    fn serialize<S: serde::Serializer>(&self, serializer: S) -> Result<S::Ok, S::Error> {
        serializer.collect_seq(self.as_slice().iter())
    }
}

impl<'de, A: Array> serde::Deserialize<'de> for SmallVec<A>
where
    A::Item: Filler + Clone + serde::Deserialize<'de>,
{
    fn deserialize<D: serde::Deserializer<'de>>(deserializer: D) -> Result<Self, D::Error> {
        let v = Vec::<A::Item>::deserialize(deserializer)?;
        Ok(v.into_iter().collect())
    }
}

#[macro_export]
macro_rules! smallvec {
    () => { $crate::SmallVec::new() };
    ($($x:expr),+ $(,)?) => {{
        let mut v = $crate::SmallVec::new();
        $( v.push($x); )+
        v
    }};
}
