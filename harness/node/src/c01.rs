//! C01 (structure of the conjunction): header validation binds signatures, validator set and DAH.
//!
//! `ExtendedHeader::validate` is sliced verbatim from /repo/types/src/extended_header.rs and run on
//! a model header in which every hash the function computes (`validator_set.hash()`,
//! `dah.hash()`, `header.hash()`) is a free ghost value, every `validate_basic` a free bit and
//! `verify_commit_light` a free result (its tally is C03). What is decided is that validation
//! succeeds EXACTLY when every one of the statement's bindings holds -- no comparison missing,
//! weakened or mis-wired. That changing a covered field changes the hash is the collision-resistance
//! assumption plus tendermint's encoders, which are outside.
type Result<T, E = Error> = std::result::Result<T, E>;
#[derive(Debug)]
pub enum Error {
    Validation,
    Verification,
    UnsupportedAppVersion(u64),
}
macro_rules! bail_validation {
    ($($t:tt)*) => { return Err(Error::Validation) };
}

#[derive(Clone, Copy, PartialEq, Default, Debug)]
pub struct Hash(pub u8);
#[derive(Clone, Copy, PartialEq, Debug)]
pub struct Height(pub u64);
impl Height {
    pub fn value(&self) -> u64 {
        self.0
    }
}
pub struct ChainId;
#[derive(Clone, Copy, PartialEq, Debug)]
pub enum AppVersion {
    V1,
    V2,
    V3,
    V4,
    V5,
    V6,
    V7,
}
impl AppVersion {
    pub fn from_u64(v: u64) -> Option<AppVersion> {
        match v {
            1 => Some(AppVersion::V1),
            2 => Some(AppVersion::V2),
            3 => Some(AppVersion::V3),
            4 => Some(AppVersion::V4),
            5 => Some(AppVersion::V5),
            6 => Some(AppVersion::V6),
            7 => Some(AppVersion::V7),
            _ => None,
        }
    }
}
pub struct Version {
    pub app: u64,
}
pub struct Header {
    basic_ok: bool,
    ghost_hash: Hash,
    pub validators_hash: Hash,
    pub data_hash: Option<Hash>,
    pub chain_id: ChainId,
    pub height: Height,
    pub version: Version,
}
impl Header {
    pub fn validate_basic(&self) -> Result<()> {
        if self.basic_ok { Ok(()) } else { Err(Error::Validation) }
    }
    pub fn hash(&self) -> Hash {
        self.ghost_hash
    }
}
pub struct BlockId {
    pub hash: Hash,
}
pub struct Commit {
    basic_ok: bool,
    signatures_ok: bool,
    pub height: Height,
    pub block_id: BlockId,
}
impl Commit {
    pub fn validate_basic(&self) -> Result<()> {
        if self.basic_ok { Ok(()) } else { Err(Error::Validation) }
    }
}
pub struct ValidatorSet {
    basic_ok: bool,
    ghost_hash: Hash,
}
impl ValidatorSet {
    pub fn validate_basic(&self) -> Result<()> {
        if self.basic_ok { Ok(()) } else { Err(Error::Validation) }
    }
    pub fn hash(&self) -> Hash {
        self.ghost_hash
    }
    /// ghost: > 2/3 of this set validly signed `commit` for `height` on `chain_id` (C03)
    pub fn verify_commit_light(&self, _chain_id: &ChainId, height: &Height, commit: &Commit) -> Result<()> {
        if commit.signatures_ok && *height == commit.height { Ok(()) } else { Err(Error::Verification) }
    }
}
pub struct Dah {
    ghost_hash: Hash,
    /// the app versions for which the DAH's width is within bounds (bit i = version i)
    basic_ok_for: u8,
}
impl Dah {
    pub fn hash(&self) -> Hash {
        self.ghost_hash
    }
    pub fn validate_basic(&self, v: AppVersion) -> Result<()> {
        let bit = match v {
            AppVersion::V1 => 1,
            AppVersion::V2 => 2,
            AppVersion::V3 => 3,
            AppVersion::V4 => 4,
            AppVersion::V5 => 5,
            AppVersion::V6 => 6,
            AppVersion::V7 => 7,
        };
        if (self.basic_ok_for >> bit) & 1 == 1 { Ok(()) } else { Err(Error::Validation) }
    }
}
pub struct ExtendedHeader {
    pub header: Header,
    pub commit: Commit,
    pub validator_set: ValidatorSet,
    pub dah: Dah,
}
impl ExtendedHeader {
    pub fn height(&self) -> u64 {
        self.header.height.value()
    }
}

include!("generated/extended_header_c01.rs");

fn any_eh() -> ExtendedHeader {
    ExtendedHeader {
        header: Header {
            basic_ok: kani::any(),
            ghost_hash: Hash(kani::any()),
            validators_hash: Hash(kani::any()),
            data_hash: if kani::any() { Some(Hash(kani::any())) } else { None },
            chain_id: ChainId,
            height: Height(kani::any()),
            version: Version { app: kani::any() },
        },
        commit: Commit { basic_ok: kani::any(), signatures_ok: kani::any(), height: Height(kani::any()), block_id: BlockId { hash: Hash(kani::any()) } },
        validator_set: ValidatorSet { basic_ok: kani::any(), ghost_hash: Hash(kani::any()) },
        dah: Dah { ghost_hash: Hash(kani::any()), basic_ok_for: kani::any() },
    }
}

fn bindings_hold(e: &ExtendedHeader) -> bool {
    let app = e.header.version.app;
    e.header.basic_ok
        && e.commit.basic_ok
        && e.validator_set.basic_ok
        && e.validator_set.ghost_hash == e.header.validators_hash
        && e.dah.ghost_hash == e.header.data_hash.unwrap_or(Hash(0))
        && e.commit.height == e.header.height
        && e.commit.block_id.hash == e.header.ghost_hash
        && e.commit.signatures_ok
        && app >= 1
        && app <= 7
        && (e.dah.basic_ok_for >> app) & 1 == 1
}

// @verif prop=C01 tier=quick shape="model header with every ghost hash, basic-validation bit, height, app version and signature result free" funcs="ExtendedHeader::validate"
#[kani::proof]
#[kani::unwind(3)]
fn c01_validate_is_the_conjunction() {
    let e = any_eh();
    let res = e.validate();
    assert!(res.is_ok() == bindings_hold(&e), "C01 validate: accepted/rejected although (not) every binding of the statement holds");
    kani::cover!(res.is_ok(), "witness: a consistent header validates");
    kani::cover!(res.is_err() && e.header.basic_ok && e.commit.basic_ok && e.validator_set.basic_ok && e.commit.signatures_ok, "witness: rejected on a hash/height binding");
    std::mem::forget(res);
}

// @verif prop=C01 tier=quick shape="a header for which every binding holds, then ONE binding broken (which one is free)" funcs="ExtendedHeader::validate"
#[kani::proof]
#[kani::unwind(3)]
fn c01_breaking_any_single_binding_is_rejected() {
    let mut e = any_eh();
    kani::assume(bindings_hold(&e));
    assert!(e.validate().is_ok(), "C01 validate: a fully consistent header is rejected");
    let which: u8 = kani::any();
    kani::assume(which < 8);
    let delta: u8 = kani::any();
    kani::assume(delta != 0);
    match which {
        0 => e.validator_set.ghost_hash.0 ^= delta,     // any validator key / power changed
        1 => e.dah.ghost_hash.0 ^= delta,               // any DAH row or column root changed
        2 => e.header.ghost_hash.0 ^= delta,            // any field covered by the block hash changed
        3 => e.commit.block_id.hash.0 ^= delta,         // the commit's block id changed
        4 => e.commit.height.0 ^= delta as u64,         // the commit's height changed
        5 => e.commit.signatures_ok = false,            // a signature / timestamp / address no longer verifies
        6 => e.header.validators_hash.0 ^= delta,
        _ => e.header.data_hash = Some(Hash(e.header.data_hash.unwrap_or(Hash(0)).0 ^ delta)),
    }
    assert!(e.validate().is_err(), "C01 validate: a header with one broken binding is accepted");
    kani::cover!(which == 4, "witness: commit height broken");
}
