//! C02: header chain verification accepts exactly linked successors.
//!
//! `ExtendedHeader::{verify, verify_adjacent, verify_range, verify_adjacent_range}` and
//! `VERIFY_CLOCK_DRIFT` are sliced verbatim from /repo/types/src/extended_header.rs. The header
//! is a model carrying exactly what these functions read: height, chain id, time, its own hash,
//! the parent hash, validators / next-validators hashes, and a ghost bit saying whether the
//! commit carries valid signatures of trusted validators with more than 1/3 of the power
//! (`verify_commit_light_trusting`, decided under C03). The clock is symbolic.
use std::time::Duration;

type Result<T, E = Error> = std::result::Result<T, E>;
#[derive(Debug)]
pub enum Error {
    Verification,
}
macro_rules! bail_verification {
    ($($t:tt)*) => { return Err(Error::Verification) };
}

#[derive(Clone, Copy, PartialEq, Debug)]
pub struct Id(pub u8);
#[derive(Clone, Copy, PartialEq, Debug)]
pub struct Hash(pub u8);
#[derive(Clone, Copy, PartialEq, PartialOrd, Debug)]
pub struct Time(pub u64);
static mut NOW: u64 = 0;
impl Time {
    pub fn now() -> Time {
        Time(unsafe { NOW })
    }
    pub fn after(&self, o: Time) -> bool {
        self.0 > o.0
    }
    pub fn before(&self, o: Time) -> bool {
        self.0 < o.0
    }
    pub fn checked_add(self, d: Duration) -> Option<Time> {
        self.0.checked_add(d.as_secs()).map(Time)
    }
}
pub struct TrustLevel;
pub const DEFAULT_TRUST_LEVEL: TrustLevel = TrustLevel;

#[derive(Clone, Copy)]
pub struct Commit {
    /// ghost: trusted validators holding > 1/3 of the trusted power validly signed this commit
    pub trusted_ok: bool,
}
#[derive(Clone, Copy)]
pub struct ValidatorSet;
impl ValidatorSet {
    pub fn verify_commit_light_trusting(&self, _chain_id: &Id, commit: &Commit, _level: TrustLevel) -> Result<()> {
        if commit.trusted_ok { Ok(()) } else { Err(Error::Verification) }
    }
}
#[derive(Clone, Copy)]
pub struct Hdr {
    pub validators_hash: Hash,
    pub next_validators_hash: Hash,
}
#[derive(Clone, Copy)]
pub struct ExtendedHeader {
    pub header: Hdr,
    pub commit: Commit,
    pub validator_set: ValidatorSet,
    height: u64,
    chain: Id,
    time: Time,
    hash: Hash,
    last: Hash,
}
impl ExtendedHeader {
    pub fn chain_id(&self) -> &Id {
        &self.chain
    }
    pub fn height(&self) -> u64 {
        self.height
    }
    pub fn time(&self) -> Time {
        self.time
    }
    pub fn hash(&self) -> Hash {
        self.hash
    }
    pub fn last_header_hash(&self) -> Hash {
        self.last
    }
}

include!("generated/extended_header_c02.rs");

fn any_header() -> ExtendedHeader {
    let height: u64 = kani::any();
    kani::assume(height >= 1 && height <= i64::MAX as u64);
    let chain: u8 = kani::any();
    kani::assume(chain <= 1);
    ExtendedHeader {
        header: Hdr { validators_hash: Hash(kani::any()), next_validators_hash: Hash(kani::any()) },
        commit: Commit { trusted_ok: kani::any() },
        validator_set: ValidatorSet,
        height,
        chain: Id(chain),
        time: Time(kani::any()),
        hash: Hash(kani::any()),
        last: Hash(kani::any()),
    }
}

/// the statement's condition for "u verifies against t"
fn links(t: &ExtendedHeader, u: &ExtendedHeader, now: u64) -> bool {
    let basic = u.height > t.height && u.chain == t.chain && u.time.0 > t.time.0 && (u.time.0 as u128) < now as u128 + 10;
    let adjacent = t.height + 1 == u.height;
    basic
        && if adjacent {
            u.header.validators_hash == t.header.next_validators_hash && u.last == t.hash
        } else {
            u.commit.trusted_ok
        }
}

fn set_clock() -> u64 {
    let now: u64 = kani::any();
    kani::assume(now <= (1u64 << 62));
    unsafe { NOW = now };
    now
}

// @verif prop=C02 tier=quick shape="trusted and untrusted header with free height (1..=i64::MAX), chain id (2 values), time, hashes, commit trust bit; free clock" funcs="ExtendedHeader::verify,ExtendedHeader::verify_adjacent"
#[kani::proof]
#[kani::unwind(3)]
fn c02_verify_single_header() {
    let now = set_clock();
    let t = any_header();
    let u = any_header();
    let want = links(&t, &u, now);
    assert!(t.verify(&u).is_ok() == want, "C02 verify: accepted/rejected against the statement's conditions");
    assert!(t.verify_adjacent(&u).is_ok() == (want && t.height + 1 == u.height), "C02 verify_adjacent: must additionally require adjacency");
    kani::cover!(want && t.height + 1 == u.height, "witness: adjacent successor accepted");
    kani::cover!(want && t.height + 1 < u.height, "witness: non-adjacent header accepted via trusted signatures");
    kani::cover!(!want && u.height > t.height && u.chain == t.chain, "witness: rejected on time/link conditions");
}

fn range<const N: usize>() {
    let now = set_clock();
    let t = any_header();
    let us: [ExtendedHeader; N] = std::array::from_fn(|_| any_header());
    let mut ok = true;
    let mut consecutive_after_first = true;
    let mut i = 0;
    while i < N {
        let prev = if i == 0 { &t } else { &us[i - 1] };
        ok = ok && links(prev, &us[i], now);
        if i > 0 {
            consecutive_after_first = consecutive_after_first && us[i - 1].height + 1 == us[i].height;
        }
        i += 1;
    }
    let want_range = ok && consecutive_after_first;
    assert!(t.verify_range(&us[..]).is_ok() == want_range, "C02 verify_range: not 'every element verifies against its predecessor and heights are consecutive'");
    let want_adj = N == 0 || (want_range && t.height + 1 == us[0].height);
    assert!(t.verify_adjacent_range(&us[..]).is_ok() == want_adj, "C02 verify_adjacent_range: must additionally start right above the trusted header");
    kani::cover!(want_range && N > 0, "witness: accepted range");
    kani::cover!((!want_range && ok) || N == 1, "witness: rejected only because of a gap");
}

// @verif prop=C02 tier=quick shape="range of 1 free header against a free trusted header" funcs="ExtendedHeader::verify_range,ExtendedHeader::verify_adjacent_range,ExtendedHeader::verify"
#[kani::proof]
#[kani::unwind(5)]
fn c02_verify_range_of_1() {
    range::<1>();
}

// @verif prop=C02 tier=quick shape="range of 2 free headers against a free trusted header" funcs="ExtendedHeader::verify_range,ExtendedHeader::verify_adjacent_range,ExtendedHeader::verify"
#[kani::proof]
#[kani::unwind(5)]
fn c02_verify_range_of_2() {
    range::<2>();
}

// @verif prop=C02 tier=quick shape="range of 3 free headers against a free trusted header" funcs="ExtendedHeader::verify_range,ExtendedHeader::verify_adjacent_range,ExtendedHeader::verify"
#[kani::proof]
#[kani::unwind(5)]
fn c02_verify_range_of_3() {
    range::<3>();
}

// ---- node/src/store/utils.rs: the batch check every Store::insert goes through -----------------------
mod celestia_types {
    pub use super::Error;
}
include!("generated/store_utils_c02.rs");

fn batch<const N: usize>() {
    let now = set_clock();
    let hs: [ExtendedHeader; N] = std::array::from_fn(|_| any_header());
    let mut v = std::vec::Vec::with_capacity(N);
    let mut i = 0;
    while i < N {
        v.push(hs[i]);
        i += 1;
    }
    let mut want = true;
    let mut i = 1;
    while i < N {
        want = want && links(&hs[i - 1], &hs[i], now) && hs[i - 1].height + 1 == hs[i].height;
        i += 1;
    }
    let res = VerifiedExtendedHeaders::try_from(v);
    assert!(res.is_ok() == want, "C02/C21 VerifiedExtendedHeaders::try_from: a batch is accepted exactly when every header is the adjacent verified successor of the previous one");
    kani::cover!(want, "witness: linked batch accepted");
    kani::cover!(!want, "witness: broken batch rejected");
    std::mem::forget(res);
}

// @verif prop=C02,C21 tier=quick shape="batch of 3 free headers through VerifiedExtendedHeaders::try_from" funcs="<VerifiedExtendedHeaders as TryFrom<Vec<ExtendedHeader>>>::try_from,ExtendedHeader::verify_adjacent_range,ExtendedHeader::verify_range,ExtendedHeader::verify"
#[kani::proof]
#[kani::unwind(6)]
fn c02_verified_batch_of_3() {
    batch::<3>();
}

// @verif prop=C02,C21 tier=quick shape="batch of 4 free headers through VerifiedExtendedHeaders::try_from" funcs="<VerifiedExtendedHeaders as TryFrom<Vec<ExtendedHeader>>>::try_from,ExtendedHeader::verify_adjacent_range,ExtendedHeader::verify_range,ExtendedHeader::verify"
#[kani::proof]
#[kani::unwind(6)]
fn c02_verified_batch_of_4() {
    batch::<4>();
}
