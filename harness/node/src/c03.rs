//! C03 (tally part): commit verification enforces the voting-power thresholds.
//!
//! Sliced verbatim: `trait ValidatorSetExt`, `impl ValidatorSetExt for Set` and `find_validator`
//! from /repo/types/src/validator_set.rs; `TrustLevelRatio` (struct + impl) from
//! /repo/types/src/trust_level.rs. Environment: a validator set of up to 3 validators with free
//! powers, a commit of up to 3 signatures, and a SIGNATURE ORACLE: a signature is valid iff its
//! (free) `valid` bit is set, i.e. validity is an arbitrary predicate of the inputs -- which is all
//! the tally logic may depend on. `std::collections::HashMap` is an association-list model.
#![allow(non_snake_case)]

type Result<T, E = Error> = std::result::Result<T, E>;

#[derive(Debug)]
pub enum VerificationError {
    NotEnoughVotingPower(u64, u64),
    Other,
}
#[derive(Debug)]
pub enum Error {
    Verification(VerificationError),
}
impl From<VerificationError> for Error {
    fn from(e: VerificationError) -> Error {
        Error::Verification(e)
    }
}
macro_rules! verification_error {
    ($($t:tt)*) => { VerificationError::Other };
}
macro_rules! bail_verification {
    ($($t:tt)*) => { return Err(Error::Verification(VerificationError::Other)) };
}

pub const N: usize = 3;

pub mod account {
    #[derive(Clone, Copy, PartialEq, Eq, Debug)]
    pub struct Id(pub u8);
}
pub mod chain {
    pub struct Id;
}
pub mod block {
    #[derive(Clone, Copy, PartialEq, Eq, Debug)]
    pub struct Height(pub u64);
    pub struct Commit {
        pub height: Height,
        pub signatures: super::Arr<super::CommitSig>,
    }
    impl Commit {
        /// `CommitExt::vote_sign_bytes`: the canonical vote bytes (opaque here)
        pub fn vote_sign_bytes(&self, _chain_id: &super::chain::Id, idx: usize) -> super::Result<super::SignBytes> {
            Ok(super::SignBytes { slot: idx })
        }
    }
}
/// the canonical vote of commit slot `slot` (each slot has its own timestamp, so its own bytes)
pub struct SignBytes {
    pub slot: usize,
}
pub struct Verifier;

/// Signature oracle: the signature verifies for the sign bytes of exactly one commit slot (or
/// none). An honest entry at slot j carries a signature over slot j's vote.
#[derive(Clone, Copy, Debug)]
pub struct Signature {
    pub valid_for_slot: Option<usize>,
}

#[derive(Clone, Copy, Debug)]
pub enum CommitSig {
    BlockIdFlagAbsent,
    BlockIdFlagCommit { validator_address: account::Id, timestamp: u64, signature: Option<Signature> },
    BlockIdFlagNil { validator_address: account::Id, timestamp: u64, signature: Option<Signature> },
}

#[derive(Clone, Copy, Debug)]
pub struct Info {
    pub address: account::Id,
    pub power: u64,
}
impl Info {
    pub fn power(&self) -> u64 {
        self.power
    }
    pub fn verify_signature<V>(&self, sign_bytes: &SignBytes, signature: &Signature) -> Result<()> {
        if signature.valid_for_slot == Some(sign_bytes.slot) { Ok(()) } else { Err(Error::Verification(VerificationError::Other)) }
    }
}

/// fixed-capacity sequence with index-based iteration (stands for `Vec<Info>` / `Vec<CommitSig>`)
pub struct Arr<T: Copy> {
    pub items: [T; N],
    pub n: usize,
}
impl<T: Copy> Arr<T> {
    pub fn len(&self) -> usize {
        self.n
    }
    pub fn is_empty(&self) -> bool {
        self.n == 0
    }
    pub fn iter(&self) -> ArrIter<'_, T> {
        ArrIter { a: self, pos: 0 }
    }
}
pub struct ArrIter<'a, T: Copy> {
    a: &'a Arr<T>,
    pos: usize,
}
impl<'a, T: Copy> Iterator for ArrIter<'a, T> {
    type Item = &'a T;
    fn next(&mut self) -> Option<&'a T> {
        if self.pos < self.a.n {
            let i = self.pos;
            self.pos += 1;
            let mut k = 0;
            while k < N {
                if k == i {
                    return Some(&self.a.items[k]);
                }
                k += 1;
            }
        }
        None
    }
}

pub struct Set {
    vals: Arr<Info>,
    total: u64,
}
impl Set {
    pub fn validators(&self) -> &Arr<Info> {
        &self.vals
    }
    pub fn total_voting_power(&self) -> u64 {
        self.total
    }
}

/// association-list stand-in for `std::collections::HashMap<usize, usize>` (std's is out of reach)
pub struct HashMap<K, V> {
    keys: [Option<(K, V)>; 4],
}
impl<K: Copy + PartialEq, V: Copy> HashMap<K, V> {
    pub fn new() -> Self {
        HashMap { keys: [None; 4] }
    }
    pub fn get(&self, k: &K) -> Option<&V> {
        let mut i = 0;
        while i < 4 {
            if let Some((kk, v)) = &self.keys[i] {
                if kk == k {
                    return Some(v);
                }
            }
            i += 1;
        }
        None
    }
    pub fn insert(&mut self, k: K, v: V) -> Option<V> {
        let mut i = 0;
        while i < 4 {
            if let Some((kk, old)) = &mut self.keys[i] {
                if *kk == k {
                    let o = *old;
                    *old = v;
                    return Some(o);
                }
            }
            i += 1;
        }
        let mut i = 0;
        while i < 4 {
            if self.keys[i].is_none() {
                self.keys[i] = Some((k, v));
                return None;
            }
            i += 1;
        }
        panic!("HashMap model capacity exceeded");
    }
}

include!("generated/validator_set_c03.rs");

fn any_set() -> Set {
    let n: usize = kani::any();
    kani::assume(n >= 1 && n <= N);
    let powers: [u64; N] = kani::any();
    let mut total = 0u64;
    let mut i = 0;
    while i < N {
        // tendermint: voting powers and their sum fit in i64
        kani::assume(powers[i] <= (i64::MAX as u64) / (N as u64));
        if i < n {
            total += powers[i];
        }
        i += 1;
    }
    // validator::Set guarantees distinct addresses and total = sum of powers
    let items = [
        Info { address: account::Id(1), power: powers[0] },
        Info { address: account::Id(2), power: powers[1] },
        Info { address: account::Id(3), power: powers[2] },
    ];
    Set { vals: Arr { items, n }, total }
}

fn any_sig(address: u8) -> CommitSig {
    let kind: u8 = kani::any();
    let slot: usize = kani::any();
    kani::assume(slot < N);
    let signature = if kani::any() { Some(Signature { valid_for_slot: if kani::any() { Some(slot) } else { None } }) } else { None };
    let validator_address = account::Id(address);
    if kind == 0 {
        CommitSig::BlockIdFlagAbsent
    } else if kind == 1 {
        CommitSig::BlockIdFlagNil { validator_address, timestamp: 0, signature }
    } else {
        CommitSig::BlockIdFlagCommit { validator_address, timestamp: 0, signature }
    }
}

// @verif prop=C03 tier=quick shape="1..=3 validators with free powers (sum fits i64), commit of 0..=3 entries each absent / nil / commit with signature missing, valid or invalid (free), free heights" funcs="<Set as ValidatorSetExt>::verify_commit_light,TrustLevelRatio::voting_power_needed"
#[kani::proof]
#[kani::unwind(6)]
fn c03_light_needs_two_thirds() {
    let set = any_set();
    let m: usize = kani::any();
    kani::assume(m <= N);
    let sigs = [any_sig(1), any_sig(2), any_sig(3)];
    let (h, ch): (u64, u64) = kani::any();
    let commit = block::Commit { height: block::Height(ch), signatures: Arr { items: sigs, n: m } };
    let res = set.verify_commit_light(&chain::Id, &block::Height(h), &commit);
    // reference tally: validators (by position) whose entry is a block commit with a valid signature
    let mut signed: u128 = 0;
    let mut all_commit_sigs_valid = true;
    let mut i = 0;
    while i < N {
        if i < m && i < set.vals.n {
            if let CommitSig::BlockIdFlagCommit { signature, .. } = &sigs[i] {
                match signature {
                    Some(s) if s.valid_for_slot == Some(i) => signed += set.vals.items[i].power as u128,
                    _ => all_commit_sigs_valid = false,
                }
            }
        }
        i += 1;
    }
    let enough = 3 * signed > 2 * (set.total as u128);
    if res.is_ok() {
        assert!(enough, "C03 light: commit accepted without valid signatures from strictly more than 2/3 of the power");
        assert!(m == set.vals.n && h == ch, "C03 light: commit accepted with a wrong number of entries or a wrong height");
    }
    if m == set.vals.n && h == ch && all_commit_sigs_valid {
        assert!(res.is_ok() == enough, "C03 light: well-formed commit not accepted exactly when the signing power exceeds 2/3");
    }
    kani::cover!(res.is_ok() && set.vals.n == 3, "witness: accepted with 3 validators");
    kani::cover!(res.is_err() && m == set.vals.n && h == ch && all_commit_sigs_valid, "witness: well-formed but not enough power");
    std::mem::forget(res);
}

// @verif prop=C03 tier=quick shape="1..=3 trusted validators with free powers, commit of 0..=3 entries whose validator addresses are free among the trusted ones, a foreign one and duplicates; signatures missing/valid/invalid (free)" funcs="<Set as ValidatorSetExt>::verify_commit_light_trusting,find_validator,TrustLevelRatio::voting_power_needed"
#[kani::proof]
#[kani::unwind(6)]
fn c03_trusting_needs_one_third_of_distinct_validators() {
    let set = any_set();
    let m: usize = kani::any();
    kani::assume(m <= N);
    let addrs: [u8; N] = kani::any();
    let mut i = 0;
    while i < N {
        kani::assume(addrs[i] >= 1 && addrs[i] <= 4); // 4 = not a trusted validator
        i += 1;
    }
    let sigs = [any_sig(addrs[0]), any_sig(addrs[1]), any_sig(addrs[2])];
    let commit = block::Commit { height: block::Height(kani::any()), signatures: Arr { items: sigs, n: m } };
    let res = set.verify_commit_light_trusting(&chain::Id, &commit, TrustLevelRatio::new(1, 3));
    // reference: DISTINCT trusted validators having a block-commit entry with a valid signature
    let mut signed: u128 = 0;
    let mut v = 0;
    while v < N {
        if v < set.vals.n {
            let mut has_valid = false;
            let mut j = 0;
            while j < N {
                if j < m {
                    if let CommitSig::BlockIdFlagCommit { validator_address, signature: Some(s), .. } = &sigs[j] {
                        if validator_address.0 as usize == v + 1 && s.valid_for_slot == Some(j) {
                            has_valid = true;
                        }
                    }
                }
                j += 1;
            }
            if has_valid {
                signed += set.vals.items[v].power as u128;
            }
        }
        v += 1;
    }
    if res.is_ok() {
        assert!(3 * signed > set.total as u128, "C03 trusting: accepted without distinct trusted validators holding strictly more than 1/3");
    }
    kani::cover!(res.is_ok() && set.vals.n == 3 && m == 3, "witness: accepted");
    kani::cover!(res.is_err() && signed > 0, "witness: rejected although someone signed");
    std::mem::forget(res);
}
