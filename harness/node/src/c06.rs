//! C06 (row selection part): namespace data is checked row by row, in row order, against exactly
//! the rows whose root range covers the namespace.
//!
//! `NamespaceData::verify` is sliced verbatim from /repo/types/src/namespace_data.rs. The DAH is a
//! model of up to 4 row roots given by their (min, max) namespace interval; `row_contains` is the
//! interval test nmt-rs performs. Each entry of the namespace data is an opaque per-row proof that
//! verifies for exactly ONE (row, namespace) pair chosen by the adversary -- whether a row's NMT
//! proof is sound and complete is nmt-rs over SHA-256 and is NOT decided here.
type Result<T, E = Error> = std::result::Result<T, E>;
#[derive(Debug)]
pub enum Error {
    NamespaceDataTooLarge,
    Verification,
    IndexOutOfRange,
    ZeroHeight,
}
macro_rules! bail_verification {
    ($($t:tt)*) => { return Err(Error::Verification) };
}

#[derive(Clone, Copy, PartialEq, PartialOrd, Debug)]
pub struct Namespace(pub u8);

pub const W: usize = 4;
pub struct DataAvailabilityHeader {
    width: u16,
    min: [u8; W],
    max: [u8; W],
}
impl DataAvailabilityHeader {
    pub fn square_width(&self) -> u16 {
        self.width
    }
    pub fn row_contains(&self, row: u16, ns: Namespace) -> Result<bool> {
        let mut i = 0;
        while i < W {
            if i as u16 == row && row < self.width {
                return Ok(self.min[i] <= ns.0 && ns.0 <= self.max[i]);
            }
            i += 1;
        }
        Err(Error::IndexOutOfRange)
    }
}

#[derive(Clone, Copy, PartialEq, Debug)]
pub struct NamespaceDataId {
    height: u64,
    namespace: Namespace,
}
impl NamespaceDataId {
    pub fn block_height(&self) -> u64 {
        self.height
    }
}
#[derive(Clone, Copy, PartialEq, Debug)]
pub struct RowNamespaceDataId {
    namespace: Namespace,
    row: u16,
    height: u64,
}
impl RowNamespaceDataId {
    pub fn new(namespace: Namespace, row: u16, height: u64) -> Result<Self> {
        if height == 0 {
            return Err(Error::ZeroHeight);
        }
        Ok(RowNamespaceDataId { namespace, row, height })
    }
}
/// opaque per-row data: verifies for exactly the (row, namespace, height) it was made for
#[derive(Clone, Copy)]
pub struct RowNamespaceData {
    for_row: u16,
    for_ns: Namespace,
    for_height: u64,
}
impl RowNamespaceData {
    pub fn verify(&self, id: RowNamespaceDataId, _dah: &DataAvailabilityHeader) -> Result<()> {
        if id.row == self.for_row && id.namespace == self.for_ns && id.height == self.for_height {
            Ok(())
        } else {
            Err(Error::Verification)
        }
    }
}
/// `Vec<RowNamespaceData>` of the sliced struct: up to 4 entries, index-based iteration
pub struct Vec<T: Copy> {
    items: [T; W],
    n: usize,
}
impl<T: Copy> Vec<T> {
    pub fn len(&self) -> usize {
        self.n
    }
    pub fn iter(&self) -> It<'_, T> {
        It { v: self, pos: 0 }
    }
}
pub struct It<'a, T: Copy> {
    v: &'a Vec<T>,
    pos: usize,
}
impl<'a, T: Copy> Iterator for It<'a, T> {
    type Item = &'a T;
    fn next(&mut self) -> Option<&'a T> {
        if self.pos < self.v.n {
            let p = self.pos;
            self.pos += 1;
            let mut i = 0;
            while i < W {
                if i == p {
                    return Some(&self.v.items[i]);
                }
                i += 1;
            }
        }
        None
    }
}

pub struct NamespaceData {
    rows: Vec<RowNamespaceData>,
}
// the sliced body collects the covering row indices into a std Vec<u16>
mod sliced {
    use super::*;
    type Vec<T> = std::vec::Vec<T>;
    include!("generated/namespace_data_c06.rs");
}

fn check(width: u16) {
    let dah = DataAvailabilityHeader { width, min: kani::any(), max: kani::any() };
    let ns = Namespace(kani::any());
    let height: u64 = kani::any();
    kani::assume(height >= 1);
    let n: usize = kani::any();
    kani::assume(n <= W);
    let rows: [RowNamespaceData; W] = std::array::from_fn(|_| RowNamespaceData { for_row: kani::any(), for_ns: Namespace(kani::any()), for_height: kani::any() });
    let data = NamespaceData { rows: Vec { items: rows, n } };
    let res = data.verify(NamespaceDataId { height, namespace: ns }, &dah);
    // reference: the covering rows, in row order
    let mut covering = [0u16; W];
    let mut c = 0usize;
    let mut r = 0;
    while r < W {
        if (r as u16) < width && dah.min[r] <= ns.0 && ns.0 <= dah.max[r] {
            let mut k = 0;
            while k < W {
                if k == c {
                    covering[k] = r as u16;
                }
                k += 1;
            }
            c += 1;
        }
        r += 1;
    }
    let mut honest = n == c;
    let mut i = 0;
    while i < W {
        if i < n && i < c {
            honest = honest && rows[i].for_row == covering[i] && rows[i].for_ns == ns && rows[i].for_height == height;
        }
        i += 1;
    }
    assert!(res.is_ok() == honest, "C06: namespace data accepted/rejected although it is (not) exactly one verified entry per covering row, in row order, for the requested namespace");
    kani::cover!(res.is_ok() && c >= 2, "witness: two covering rows accepted");
    kani::cover!(res.is_err() && n == c && c >= 1, "witness: right count but wrong entries");
    std::mem::forget(res);
}

// @verif prop=C06 tier=quick shape="DAH of 2 rows with free (min,max) namespace intervals, free namespace and height, 0..=4 free per-row entries" funcs="NamespaceData::verify"
#[kani::proof]
#[kani::unwind(7)]
fn c06_row_selection_width_2() {
    check(2);
}

// @verif prop=C06 tier=quick shape="DAH of 4 rows with free (min,max) namespace intervals, free namespace and height, 0..=4 free per-row entries" funcs="NamespaceData::verify"
#[kani::proof]
#[kani::unwind(7)]
fn c06_row_selection_width_4() {
    check(4);
}

// ---- RowNamespaceData::verify: proof-type guard and root selection ---------------------------------
/// `RowNamespaceData::verify` sliced verbatim from /repo/types/src/row_namespace_data.rs. The NMT
/// range proof is a model with nmt-rs's CONTRACT for `verify_complete_namespace`: a presence proof
/// verifies iff its ghost bit says so for (that root, that namespace, those shares); an absence proof
/// verifies trivially when the root's range does not cover the namespace (nmt-rs returns Ok before
/// looking at anything else) and otherwise iff its ghost bit says so.
mod row {
    type Result<T, E = Error> = std::result::Result<T, E>;
    #[derive(Debug)]
    pub enum Error {
        WrongProofType,
        EdsIndexOutOfRange(u16, u16),
        RangeProofError(RangeProofError),
    }
    #[derive(Debug)]
    pub struct RangeProofError;
    #[derive(Clone, Copy, PartialEq, Debug)]
    pub struct NamespaceId(pub u8);
    #[derive(Clone, Copy, PartialEq, Debug)]
    pub struct Namespace(pub NamespaceId);
    impl std::ops::Deref for Namespace {
        type Target = NamespaceId;
        fn deref(&self) -> &NamespaceId {
            &self.0
        }
    }
    #[derive(Clone, Copy, PartialEq, Debug)]
    pub struct Root {
        pub id: u8,
        pub min: u8,
        pub max: u8,
    }
    pub struct DataAvailabilityHeader {
        pub roots: [Root; 2],
    }
    impl DataAvailabilityHeader {
        pub fn row_root(&self, row: u16) -> Option<Root> {
            if row == 0 {
                Some(self.roots[0])
            } else if row == 1 {
                Some(self.roots[1])
            } else {
                None
            }
        }
    }
    #[derive(Clone, Copy, Debug)]
    pub struct RowNamespaceDataId {
        pub namespace: Namespace,
        pub row: u16,
    }
    impl RowNamespaceDataId {
        pub fn namespace(&self) -> Namespace {
            self.namespace
        }
        pub fn row_index(&self) -> u16 {
            self.row
        }
    }
    pub struct Shares {
        pub n: usize,
    }
    impl Shares {
        pub fn is_empty(&self) -> bool {
            self.n == 0
        }
    }
    pub struct NamespaceProof {
        pub absence: bool,
        /// ghost: the (root id, namespace) for which the hash part of this proof checks out
        pub good_for: (u8, u8),
    }
    impl NamespaceProof {
        pub fn is_of_absence(&self) -> bool {
            self.absence
        }
        pub fn is_of_presence(&self) -> bool {
            !self.absence
        }
        pub fn verify_complete_namespace(&self, root: &Root, _shares: &Shares, ns: NamespaceId) -> std::result::Result<(), RangeProofError> {
            if self.absence && !(root.min <= ns.0 && ns.0 <= root.max) {
                return Ok(());
            }
            if self.good_for == (root.id, ns.0) { Ok(()) } else { Err(RangeProofError) }
        }
    }
    pub struct RowNamespaceData {
        pub shares: Shares,
        pub proof: NamespaceProof,
    }
    include!("generated/row_namespace_data_c06.rs");

    pub fn check_row_data() {
        let dah = DataAvailabilityHeader {
            roots: [Root { id: 1, min: kani::any(), max: kani::any() }, Root { id: 2, min: kani::any(), max: kani::any() }],
        };
        let row: u16 = kani::any();
        kani::assume(row <= 3);
        let ns: u8 = kani::any();
        let n: usize = kani::any();
        kani::assume(n <= 2);
        let data = RowNamespaceData { shares: Shares { n }, proof: NamespaceProof { absence: kani::any(), good_for: (kani::any(), kani::any()) } };
        let res = data.verify(RowNamespaceDataId { namespace: Namespace(NamespaceId(ns)), row }, &dah);
        if res.is_ok() {
            assert!(row < 2, "C06 row data accepted for a row outside the square");
            let root = if row == 0 { dah.roots[0] } else { dah.roots[1] };
            assert!((n == 0) == data.proof.absence, "C06 row data: shares with an absence proof (or no shares with a presence proof) accepted");
            let covers = root.min <= ns && ns <= root.max;
            assert!(data.proof.good_for == (root.id, ns) || (data.proof.absence && !covers), "C06 row data accepted although the proof does not check out against THAT row's root and the requested namespace");
        }
        kani::cover!(res.is_ok() && n > 0, "witness: shares accepted");
        kani::cover!(res.is_ok() && n == 0, "witness: absence accepted");
        kani::cover!(res.is_err(), "witness: rejected");
        std::mem::forget(res);
    }
}

// @verif prop=C06 tier=quick shape="2-row DAH with free root ranges, free requested row (0..=3) and namespace, share count 0..=2, proof of presence or absence with a free ghost verdict" funcs="RowNamespaceData::verify"
#[kani::proof]
#[kani::unwind(4)]
fn c06_row_data_proof_type_and_root() {
    row::check_row_data();
}
