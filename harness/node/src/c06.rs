//! C06 (row selection part): namespace data is checked row by row, in row order, against exactly
//! the rows whose root range covers the namespace.
//!
//! `NamespaceData::verify` is sliced verbatim from /repo/types/src/namespace_data.rs. The DAH is a
//! model of up to 4 row roots given by their (min, max) namespace interval; `row_contains` is the
//! interval test nmt-rs performs. Each entry of the namespace data is an opaque per-row proof that
//! verifies for exactly ONE (row, namespace) pair chosen by the adversary -- whether a row's NMT
//! proof is sound and complete is nmt-rs over SHA-256 and is NOT decided here.
type Result<T, E = Error> = std::result::Result<T, E>;
#[derive(Debug)]
pub enum Error {
    NamespaceDataTooLarge,
    Verification,
    IndexOutOfRange,
    ZeroHeight,
}
macro_rules! bail_verification {
    ($($t:tt)*) => { return Err(Error::Verification) };
}

#[derive(Clone, Copy, PartialEq, PartialOrd, Debug)]
pub struct Namespace(pub u8);

pub const W: usize = 4;
pub struct DataAvailabilityHeader {
    width: u16,
    min: [u8; W],
    max: [u8; W],
}
impl DataAvailabilityHeader {
    pub fn square_width(&self) -> u16 {
        self.width
    }
    pub fn row_contains(&self, row: u16, ns: Namespace) -> Result<bool> {
        let mut i = 0;
        while i < W {
            if i as u16 == row && row < self.width {
                return Ok(self.min[i] <= ns.0 && ns.0 <= self.max[i]);
            }
            i += 1;
        }
        Err(Error::IndexOutOfRange)
    }
}

#[derive(Clone, Copy, PartialEq, Debug)]
pub struct NamespaceDataId {
    height: u64,
    namespace: Namespace,
}
impl NamespaceDataId {
    pub fn block_height(&self) -> u64 {
        self.height
    }
}
#[derive(Clone, Copy, PartialEq, Debug)]
pub struct RowNamespaceDataId {
    namespace: Namespace,
    row: u16,
    height: u64,
}
impl RowNamespaceDataId {
    pub fn new(namespace: Namespace, row: u16, height: u64) -> Result<Self> {
        if height == 0 {
            return Err(Error::ZeroHeight);
        }
        Ok(RowNamespaceDataId { namespace, row, height })
    }
}
/// opaque per-row data: verifies for exactly the (row, namespace, height) it was made for
#[derive(Clone, Copy)]
pub struct RowNamespaceData {
    for_row: u16,
    for_ns: Namespace,
    for_height: u64,
}
impl RowNamespaceData {
    pub fn verify(&self, id: RowNamespaceDataId, _dah: &DataAvailabilityHeader) -> Result<()> {
        if id.row == self.for_row && id.namespace == self.for_ns && id.height == self.for_height {
            Ok(())
        } else {
            Err(Error::Verification)
        }
    }
}
/// `Vec<RowNamespaceData>` of the sliced struct: up to 4 entries, index-based iteration
pub struct Vec<T: Copy> {
    items: [T; W],
    n: usize,
}
impl<T: Copy> Vec<T> {
    pub fn len(&self) -> usize {
        self.n
    }
    pub fn iter(&self) -> It<'_, T> {
        It { v: self, pos: 0 }
    }
}
pub struct It<'a, T: Copy> {
    v: &'a Vec<T>,
    pos: usize,
}
impl<'a, T: Copy> Iterator for It<'a, T> {
    type Item = &'a T;
    fn next(&mut self) -> Option<&'a T> {
        if self.pos < self.v.n {
            let p = self.pos;
            self.pos += 1;
            let mut i = 0;
            while i < W {
                if i == p {
                    return Some(&self.v.items[i]);
                }
                i += 1;
            }
        }
        None
    }
}

pub struct NamespaceData {
    rows: Vec<RowNamespaceData>,
}
// the sliced body collects the covering row indices into a std Vec<u16>
mod sliced {
    use super::*;
    type Vec<T> = std::vec::Vec<T>;
    include!("generated/namespace_data_c06.rs");
}

fn check(width: u16) {
    let dah = DataAvailabilityHeader { width, min: kani::any(), max: kani::any() };
    let ns = Namespace(kani::any());
    let height: u64 = kani::any();
    kani::assume(height >= 1);
    let n: usize = kani::any();
    kani::assume(n <= W);
    let rows: [RowNamespaceData; W] = std::array::from_fn(|_| RowNamespaceData { for_row: kani::any(), for_ns: Namespace(kani::any()), for_height: kani::any() });
    let data = NamespaceData { rows: Vec { items: rows, n } };
    let res = data.verify(NamespaceDataId { height, namespace: ns }, &dah);
    // reference: the covering rows, in row order
    let mut covering = [0u16; W];
    let mut c = 0usize;
    let mut r = 0;
    while r < W {
        if (r as u16) < width && dah.min[r] <= ns.0 && ns.0 <= dah.max[r] {
            let mut k = 0;
            while k < W {
                if k == c {
                    covering[k] = r as u16;
                }
                k += 1;
            }
            c += 1;
        }
        r += 1;
    }
    let mut honest = n == c;
    let mut i = 0;
    while i < W {
        if i < n && i < c {
            honest = honest && rows[i].for_row == covering[i] && rows[i].for_ns == ns && rows[i].for_height == height;
        }
        i += 1;
    }
    assert!(res.is_ok() == honest, "C06: namespace data accepted/rejected although it is (not) exactly one verified entry per covering row, in row order, for the requested namespace");
    kani::cover!(res.is_ok() && c >= 2, "witness: two covering rows accepted");
    kani::cover!(res.is_err() && n == c && c >= 1, "witness: right count but wrong entries");
    std::mem::forget(res);
}

// @verif prop=C06 tier=quick shape="DAH of 2 rows with free (min,max) namespace intervals, free namespace and height, 0..=4 free per-row entries" funcs="NamespaceData::verify"
#[kani::proof]
#[kani::unwind(7)]
fn c06_row_selection_width_2() {
    check(2);
}

// @verif prop=C06 tier=quick shape="DAH of 4 rows with free (min,max) namespace intervals, free namespace and height, 0..=4 free per-row entries" funcs="NamespaceData::verify"
#[kani::proof]
#[kani::unwind(7)]
fn c06_row_selection_width_4() {
    check(4);
}
