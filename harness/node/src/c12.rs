//! C12 (partition arithmetic): blob commitments follow the share-commitment rules.
//!
//! Sliced verbatim from /repo/types/src/blob/commitment.rs: `merkle_mountain_range_sizes`,
//! `blob_min_square_size`, `subtree_width`, `round_up_to_power_of_2`, `round_down_to_power_of_2`.
//! They are compared with an independent integer-only (no floating point) implementation of the
//! ADR-013 rule for every share count in the stated range. `Vec<u64>` is a summary vector
//! (count, sum, last element, ordering/power-of-two flags): the list of tree sizes is only ever
//! pushed to by the code under test.
use std::num::NonZeroU64;

#[derive(Debug)]
pub struct Vec<T> {
    pub count: u64,
    pub sum: u64,
    pub last: u64,
    pub non_increasing: bool,
    pub all_pow2: bool,
    pub max: u64,
    _p: std::marker::PhantomData<T>,
}
impl Vec<u64> {
    pub fn new() -> Self {
        Vec { count: 0, sum: 0, last: 0, non_increasing: true, all_pow2: true, max: 0, _p: std::marker::PhantomData }
    }
    pub fn push(&mut self, x: u64) {
        if self.count > 0 && x > self.last {
            self.non_increasing = false;
        }
        if !(x != 0 && x & (x - 1) == 0) {
            self.all_pow2 = false;
        }
        if x > self.max {
            self.max = x;
        }
        self.count += 1;
        self.sum += x;
        self.last = x;
    }
    pub fn len(&self) -> usize {
        self.count as usize
    }
}

include!("generated/commitment_c12.rs");

fn ref_next_pow2(x: u64) -> u64 {
    // smallest power of two >= x (1 for x == 0)
    let mut p = 1u64;
    let mut i = 0;
    while i < 64 {
        if p < x {
            p <<= 1;
        }
        i += 1;
    }
    p
}

fn ref_ceil_sqrt(n: u64, bound: u64) -> u64 {
    // smallest r with r*r >= n, searched up to `bound`
    let mut r = 0u64;
    let mut i = 0;
    while i <= bound {
        if r * r < n {
            r += 1;
        }
        i += 1;
    }
    r
}

fn width(max_n: u64, sqrt_bound: u64, threshold: u64) {
    let n: u64 = kani::any();
    kani::assume(n >= 1 && n <= max_n);
    let got = subtree_width(n, threshold);
    let by_threshold = ref_next_pow2((n + threshold - 1) / threshold);
    let by_square = ref_next_pow2(ref_ceil_sqrt(n, sqrt_bound));
    let want = if by_threshold < by_square { by_threshold } else { by_square };
    assert!(got == want, "C12 subtree_width differs from the ADR-013 rule min(pow2(ceil(n/threshold)), pow2(ceil(sqrt(n))))");
    assert!(blob_min_square_size(n) == by_square, "C12 blob_min_square_size is not the smallest power-of-two square holding n shares");
    kani::cover!(got == by_threshold && got < by_square, "witness: threshold rule decides");
    kani::cover!(got == by_square && (by_square < by_threshold || max_n <= 4096), "witness: square size decides (only possible above 4096 shares)");
}

// @verif prop=C12 tier=quick shape="share count free in 1..=1024, subtree root threshold 64" funcs="subtree_width,blob_min_square_size,round_up_to_power_of_2"
#[kani::proof]
#[kani::unwind(66)]
fn c12_subtree_width_threshold_64() {
    width(1024, 33, 64);
}

// @verif prop=C12 tier=thorough shape="share count free in 1..=16384, subtree root threshold 64" funcs="subtree_width,blob_min_square_size,round_up_to_power_of_2"
#[kani::proof]
#[kani::unwind(130)]
fn c12_subtree_width_threshold_64_large() {
    width(16384, 128, 64);
}

// @verif prop=C12 tier=quick shape="total size free in 1..=1024, max tree size any power of two 1..=64" funcs="merkle_mountain_range_sizes,round_down_to_power_of_2,round_up_to_power_of_2"
#[kani::proof]
#[kani::unwind(66)]
fn c12_mountain_range_sizes() {
    let n: u64 = kani::any();
    let k: u32 = kani::any();
    kani::assume(n >= 1 && n <= 1024 && k <= 6);
    let w = 1u64 << k;
    // keep the number of trees (= loop iterations) within the unwinding bound
    kani::assume(n / w <= 48);
    let sizes = merkle_mountain_range_sizes(n, w);
    assert!(sizes.sum == n, "C12 mountain range: tree sizes do not add up to the share count");
    assert!(sizes.all_pow2, "C12 mountain range: a tree size is not a power of two");
    assert!(sizes.max <= w, "C12 mountain range: a tree is wider than the subtree width");
    assert!(sizes.non_increasing, "C12 mountain range: tree sizes are not non-increasing");
    // greedy rule: full-width trees first, then the binary decomposition of the remainder
    let want_count = n / w + (n % w).count_ones() as u64;
    assert!(sizes.count == want_count, "C12 mountain range: wrong number of trees");
    kani::cover!(sizes.count >= 5 && n % w != 0, "witness: full trees plus a remainder");
}
