//! C13: merkle, row and share proofs are position-binding and sound.
//!
//! `MerkleProof` (struct, `new`, `verify`), `hash_leaves_collecting_aunts` and
//! `subtree_root_from_aunts` are sliced verbatim from /repo/types/src/merkle_proof.rs; `RowProof`
//! and its `verify` from /repo/types/src/data_availability_header.rs. They run against the ideal
//! hash (models::ideal_hash) instead of tendermint's SHA-256 `MerkleHash`.
use crate::hx::Hash as TmHash;
use crate::models::ideal_hash::{self, Sha256};

pub type Hash = [u8; 32];
type Result<T, E = Error> = std::result::Result<T, E>;

#[derive(Debug)]
pub enum Error {
    IndexOutOfRange(usize, usize),
    RootMismatch,
    Verification,
    Validation,
}
pub struct VerificationError;
impl From<VerificationError> for Error {
    fn from(_: VerificationError) -> Error {
        Error::Verification
    }
}
macro_rules! verification_error {
    ($($t:tt)*) => { VerificationError };
}
macro_rules! bail_verification {
    ($($t:tt)*) => { return Err(Error::Verification) };
}

mod merkle {
    use super::*;
    include!("generated/merkle_proof_c13.rs");

    pub fn subtree_root(index: usize, total: usize, leaf: Hash, aunts: &[Hash]) -> Result<Hash> {
        subtree_root_from_aunts(index, total, leaf, aunts)
    }
}
use merkle::MerkleProof;

/// One-byte leaf. NOT `[u8; 1]`: Kani 0.68 reads elements of nested arrays (`[[u8; 1]; T]`)
/// through unsized references as nondeterministic values (measured: `cover!(s[1][0] != 31)` is
/// satisfiable after `assume(leaves[1][0] == 31)`), which yields spurious counterexamples.
#[derive(Clone, Copy, PartialEq)]
pub struct Leaf(pub u8);
impl AsRef<[u8]> for Leaf {
    fn as_ref(&self) -> &[u8] {
        std::slice::from_ref(&self.0)
    }
}
fn any_leaves<const T: usize>() -> [Leaf; T] {
    let b: [u8; T] = kani::any();
    std::array::from_fn(|i| Leaf(b[i]))
}

/// Honest tree over `T` one-byte leaves (free bytes), built with the same oracle by an
/// independent straightforward recursion (RFC 6962 split: largest power of two below n).
fn honest_root(leaves: &[Leaf]) -> Hash {
    let n = leaves.len();
    if n == 1 {
        return ideal_hash::oracle(0, &[leaves[0].as_ref()]);
    }
    let mut split = 1;
    while split * 2 < n {
        split *= 2;
    }
    let l = honest_root(&leaves[..split]);
    let r = honest_root(&leaves[split..]);
    ideal_hash::oracle(1, &[&l, &r])
}

/// Reference audit-path verification (RFC 6962 / CometBFT `computeHashFromAunts`), written
/// independently of the code under test: `None` = reject, `Some(root)` = the recomputed root.
fn ref_root(index: usize, total: usize, leaf: Hash, aunts: &[Hash]) -> Option<Hash> {
    if total == 0 || index >= total {
        return None;
    }
    if total == 1 {
        return if aunts.is_empty() { Some(leaf) } else { None };
    }
    if aunts.is_empty() {
        return None;
    }
    // largest power of two strictly below total
    let mut split = 1usize;
    while split <= (total - 1) / 2 {
        split *= 2;
    }
    let last = aunts.len() - 1;
    if index < split {
        let l = ref_root(index, split, leaf, &aunts[..last])?;
        Some(ideal_hash::oracle(1, &[&l, &aunts[last]]))
    } else {
        let r = ref_root(index - split, total - split, leaf, &aunts[..last])?;
        Some(ideal_hash::oracle(1, &[&aunts[last], &r]))
    }
}

fn soundness<const T: usize, const A: usize>() {
    ideal_hash::reset();
    let leaves: [Leaf; T] = any_leaves::<T>();
    let root = honest_root(&leaves);
    // adversarial proof: everything free
    let index: usize = kani::any();
    let total: usize = kani::any();
    // totals up to 2T+1 cover every shape an A-aunt proof can take against a T-leaf tree; the
    // arithmetic for huge totals is covered by c13_merkle_huge_totals
    kani::assume(total >= 1 && total <= 2 * T + 1);
    let aunts_arr: [Hash; A] = kani::any();
    let mut aunts = Vec::with_capacity(A);
    let mut i = 0;
    while i < A {
        aunts.push(aunts_arr[i]);
        i += 1;
    }
    let x = Leaf(kani::any());
    let proof = MerkleProof { index, total, leaf_hash: kani::any(), aunts };
    let res = proof.verify(x, root);
    let lh = ideal_hash::oracle(0, &[x.as_ref()]);
    let want = proof.leaf_hash == lh && ref_root(index, total, lh, &aunts_arr[..]) == Some(root);
    assert!(res.is_ok() == want, "C13 merkle verify disagrees with the reference RFC 6962 audit-path verification");
    if res.is_ok() {
        assert!(index < total, "C13 merkle proof accepted with index >= total");
        if total == T {
            assert!(leaves[index] == x, "C13 merkle proof accepted for a leaf that is not at that index");
        } else {
            // RFC 6962 roots do not commit to the leaf count: see known_findings.json
            assert!(index < T && leaves[index] == x, "C13 merkle proof accepted with a leaf count other than the tree's, for a leaf that is not at that index");
        }
    }
    kani::cover!(res.is_ok() && total == T, "witness: an honest-shape proof verifies");
    kani::cover!(res.is_err(), "witness: some proof is rejected");
    std::mem::forget(proof);
    std::mem::forget(res);
}

// @verif prop=C13 tier=quick shape="honest tree of 1 leaf (free byte); adversarial proof: free index/total (1..=2^62), free leaf, 0 aunts" funcs="MerkleProof::verify,subtree_root_from_aunts"
#[kani::proof]
#[kani::unwind(34)]
fn c13_merkle_sound_t1_a0() {
    soundness::<1, 0>();
}

// @verif prop=C13 tier=quick shape="honest tree of 2 leaves; adversarial proof with 1 free aunt, free index/total/leaf" funcs="MerkleProof::verify,subtree_root_from_aunts"
#[kani::proof]
#[kani::unwind(34)]
fn c13_merkle_sound_t2_a1() {
    soundness::<2, 1>();
}

// @verif prop=C13 tier=quick shape="honest tree of 3 leaves; adversarial proof with 2 free aunts, free index/total/leaf" funcs="MerkleProof::verify,subtree_root_from_aunts"
#[kani::proof]
#[kani::unwind(34)]
fn c13_merkle_sound_t3_a2() {
    soundness::<3, 2>();
}

// @verif prop=C13 tier=thorough shape="honest tree of 3 leaves; adversarial proof with 1 free aunt, free index/total/leaf" funcs="MerkleProof::verify,subtree_root_from_aunts"
#[kani::proof]
#[kani::unwind(34)]
fn c13_merkle_sound_t3_a1() {
    soundness::<3, 1>();
}

// @verif prop=C13 tier=thorough shape="honest tree of 4 leaves; adversarial proof with 2 free aunts, free index/total/leaf" funcs="MerkleProof::verify,subtree_root_from_aunts"
#[kani::proof]
#[kani::unwind(34)]
fn c13_merkle_sound_t4_a2() {
    soundness::<4, 2>();
}

// @verif prop=C13 tier=thorough shape="honest tree of 5 leaves; adversarial proof with 3 free aunts, free index/total/leaf" funcs="MerkleProof::verify,subtree_root_from_aunts"
#[kani::proof]
#[kani::unwind(34)]
fn c13_merkle_sound_t5_a3() {
    soundness::<5, 3>();
}

// NOTE: `MerkleProof::new` (proof construction) exhausts the 14 GB cap even for a 2-leaf tree
// (Vec growth inside a recursion over `&[impl AsRef<[u8]>]`); it is outside the claim. Acceptance
// of honest proofs is still decided: the differential assertion in `soundness` compares `verify`
// with the reference verification on ALL inputs, which include every honest proof.

// NOTE: a harness with index/total free over the whole i64 range (what TryFrom<RawMerkleProof>
// admits) exhausts the 14 GB cap (symbolic `next_power_of_two` inside the recursion); totals are
// bounded by 2T+1 in the harnesses above, so arithmetic for huge totals is outside the claim.
