//! C16: decoding network input never panics (arithmetic kernels of the decoders).
//!
//! Sliced verbatim: `NamespaceProof::total_leaves` (types/src/nmt/namespace_proof.rs, used by
//! `Sample::from_raw` on proofs received from peers), `RowProof` + `RowProof::verify`
//! (types/src/data_availability_header.rs) and `HeaderRequestExt::is_valid` (node utils.rs).
//! The header-ex framing harnesses of c30.rs are also part of this property. Kani's built-in
//! checks (arithmetic overflow, shift overflow, index, unwrap/expect) are the assertion.
use crate::hx::Hash;

type Result<T, E = Error> = std::result::Result<T, E>;
#[derive(Debug)]
pub enum Error {
    Verification,
}
macro_rules! bail_verification {
    ($($t:tt)*) => { return Err(Error::Verification) };
}

// ---- NamespaceProof::total_leaves ---------------------------------------------------------------
pub struct Siblings {
    n: usize,
}
impl Siblings {
    pub fn len(&self) -> usize {
        self.n
    }
}
/// Model of the nmt-rs range proof as far as `total_leaves` reads it: leaf range and sibling count.
pub struct NamespaceProof {
    start: u32,
    end: u32,
    sib: Siblings,
}
impl NamespaceProof {
    pub fn start_idx(&self) -> u32 {
        self.start
    }
    pub fn end_idx(&self) -> u32 {
        self.end
    }
    pub fn siblings(&self) -> &Siblings {
        &self.sib
    }
}
include!("generated/namespace_proof_c16.rs");

// @verif prop=C16 tier=quick shape="proof leaf range free u32, number of sibling nodes free in 0..=4096 (a peer chooses it)" funcs="NamespaceProof::total_leaves"
#[kani::proof]
#[kani::unwind(2)]
fn c16_total_leaves_any_sibling_count() {
    let n: usize = kani::any();
    kani::assume(n <= 4096);
    let p = NamespaceProof { start: kani::any(), end: kani::any(), sib: Siblings { n } };
    let t = p.total_leaves();
    if let Some(total) = t {
        assert!(n < 64 && total == 1usize << n, "C16 total_leaves: wrong leaf count");
    }
    kani::cover!(t.is_some() && n == 7, "witness: 128-leaf tree");
    kani::cover!(n >= 64, "witness: oversized proof");
}

// ---- RowProof::verify -----------------------------------------------------------------------------
#[derive(Clone, Copy)]
pub struct NamespacedHash(u8);
impl NamespacedHash {
    pub fn to_array(&self) -> [u8; 1] {
        [self.0]
    }
}
#[derive(Clone, Copy)]
pub struct MerkleProof {
    ok: bool,
}
impl MerkleProof {
    pub fn verify(&self, _leaf: impl AsRef<[u8]>, _root: [u8; 32]) -> Result<()> {
        if self.ok { Ok(()) } else { Err(Error::Verification) }
    }
}
/// `Vec` as named by the sliced struct: up to 2 entries
pub struct Vec<T: Copy> {
    items: [T; 2],
    n: usize,
}
impl<T: Copy> Vec<T> {
    pub fn len(&self) -> usize {
        self.n
    }
    pub fn iter(&self) -> VIter<'_, T> {
        VIter { v: self, pos: 0 }
    }
}
pub struct VIter<'a, T: Copy> {
    v: &'a Vec<T>,
    pos: usize,
}
impl<'a, T: Copy> Iterator for VIter<'a, T> {
    type Item = &'a T;
    fn next(&mut self) -> Option<&'a T> {
        if self.pos < self.v.n {
            let i = self.pos;
            self.pos += 1;
            if i == 0 { Some(&self.v.items[0]) } else { Some(&self.v.items[1]) }
        } else {
            None
        }
    }
}
include!("generated/row_proof_c16.rs");

// @verif prop=C16,C13 tier=quick shape="start_row, end_row free u16 (everything TryFrom<RawRowProof> admits), 0..=2 roots and 0..=2 proofs (free counts, proofs valid or not), root hash present or absent" funcs="RowProof::verify"
#[kani::proof]
#[kani::unwind(4)]
fn c16_row_proof_verify_any_span() {
    let (nr, np): (usize, usize) = kani::any();
    kani::assume(nr <= 2 && np <= 2);
    let proofs = [MerkleProof { ok: kani::any() }, MerkleProof { ok: kani::any() }];
    let p = RowProof {
        row_roots: Vec { items: [NamespacedHash(1), NamespacedHash(2)], n: nr },
        proofs: Vec { items: proofs, n: np },
        start_row: kani::any(),
        end_row: kani::any(),
    };
    let root = if kani::any() { Hash::Sha256(kani::any()) } else { Hash::None };
    let res = p.verify(root);
    if res.is_ok() {
        let span = p.end_row as u32 - p.start_row as u32 + 1;
        assert!(p.end_row >= p.start_row && nr == np && span as usize == np, "C13 row proof accepted although the number of roots does not match the claimed row span");
        assert!((np < 1 || proofs[0].ok) && (np < 2 || proofs[1].ok), "C13 row proof accepted although an inner proof does not verify");
        assert!(matches!(root, Hash::Sha256(_)), "C13 row proof accepted against an empty hash");
    }
    kani::cover!(res.is_ok() && np == 2, "witness: accepted 2-row proof");
    kani::cover!(res.is_err() && p.start_row == 0 && p.end_row == u16::MAX, "witness: full u16 span rejected");
    std::mem::forget(res);
}
