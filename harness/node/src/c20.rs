//! C20 / C21: in-memory store steps (failed operations change nothing; stored headers stay
//! hash-linked and indexed by hash).
//!
//! Sliced verbatim from /repo/node/src/store/in_memory_store.rs: `struct InMemoryStoreInner` and
//! its methods get_head_height, contains_hash, get_by_hash, contains_height, get_by_height, insert,
//! verify_against_neighbours, mark_as_sampled and remove_height. One step from an ARBITRARY
//! consistent state over heights 1..=6. Environment: association-list `HashMap` with the entry
//! API, bitset `BlockRanges` (valid by C17/C18), header model {height, hash, parent hash} whose
//! `verify` is the adjacency relation of C02, `VerifiedExtendedHeaders` = an internally linked
//! batch of 1..=2 headers. The redb store is NOT covered (B-tree engine, out of reach).
use crate::models::bitranges::{BlockRange, BlockRanges, BlockRangesError, MAXH};

macro_rules! debug {
    ($($t:tt)*) => {};
}
macro_rules! format {
    ($($t:tt)*) => { String::new() };
}

pub type Result<T, E = StoreError> = std::result::Result<T, E>;
#[derive(Debug)]
pub enum StoreInsertionError {
    HeadersVerificationFailed(String),
    NeighborsVerificationFailed(String),
    ConstraintsNotMet(BlockRangesError),
    HashExists(Hash),
}
#[derive(Debug)]
pub enum StoreError {
    NotFound,
    InsertionFailed(StoreInsertionError),
    StoredDataError(String),
}
impl From<StoreInsertionError> for StoreError {
    fn from(e: StoreInsertionError) -> Self {
        StoreError::InsertionFailed(e)
    }
}

#[derive(Clone, Copy, PartialEq, Eq, Debug)]
pub struct Hash(pub u8);
#[derive(Clone, Copy, PartialEq, Debug)]
pub struct ExtendedHeader {
    height: u64,
    hash: Hash,
    parent: Hash,
}
pub struct VerifyError;
impl VerifyError {
    pub fn to_string(&self) -> String {
        String::new()
    }
}
impl ExtendedHeader {
    pub fn height(&self) -> u64 {
        self.height
    }
    pub fn hash(&self) -> Hash {
        self.hash
    }
    /// adjacency relation (C02): the successor names `self` as its parent
    pub fn verify(&self, next: &ExtendedHeader) -> std::result::Result<(), VerifyError> {
        if next.height == self.height + 1 && next.parent == self.hash { Ok(()) } else { Err(VerifyError) }
    }
    pub fn to_owned(&self) -> ExtendedHeader {
        *self
    }
}
#[derive(Clone, Debug, Default)]
pub struct SamplingMetadata {
    pub cids: u8,
}

pub const BATCH: usize = 2;
pub struct VerifiedExtendedHeaders {
    items: [ExtendedHeader; BATCH],
    n: usize,
}
impl AsRef<[ExtendedHeader]> for VerifiedExtendedHeaders {
    fn as_ref(&self) -> &[ExtendedHeader] {
        if self.n == 1 { &self.items[..1] } else if self.n == 2 { &self.items[..2] } else { &self.items[..0] }
    }
}
pub struct BatchIter {
    b: VerifiedExtendedHeaders,
    pos: usize,
}
impl Iterator for BatchIter {
    type Item = ExtendedHeader;
    fn next(&mut self) -> Option<ExtendedHeader> {
        if self.pos < self.b.n {
            let h = if self.pos == 0 { self.b.items[0] } else { self.b.items[1] };
            self.pos += 1;
            Some(h)
        } else {
            None
        }
    }
}
impl IntoIterator for VerifiedExtendedHeaders {
    type Item = ExtendedHeader;
    type IntoIter = BatchIter;
    fn into_iter(self) -> BatchIter {
        BatchIter { b: self, pos: 0 }
    }
}

// ---- HashMap model with the entry API ------------------------------------------------------------
pub const MCAP: usize = 8;
#[derive(Clone, Debug)]
pub struct HashMap<K, V> {
    slots: [Option<(K, V)>; MCAP],
}
pub enum Entry<'a, K, V> {
    Occupied(OccupiedEntry<'a, K, V>),
    Vacant(VacantEntry<'a, K, V>),
}
pub struct OccupiedEntry<'a, K, V> {
    m: &'a mut HashMap<K, V>,
    idx: usize,
}
pub struct VacantEntry<'a, K, V> {
    m: &'a mut HashMap<K, V>,
    key: K,
}
impl<K: Copy + PartialEq, V> HashMap<K, V> {
    pub fn new() -> Self {
        HashMap { slots: std::array::from_fn(|_| None) }
    }
    fn find(&self, k: &K) -> Option<usize> {
        let mut i = 0;
        while i < MCAP {
            if let Some((kk, _)) = &self.slots[i] {
                if kk == k {
                    return Some(i);
                }
            }
            i += 1;
        }
        None
    }
    pub fn contains_key(&self, k: &K) -> bool {
        self.find(k).is_some()
    }
    pub fn get(&self, k: &K) -> Option<&V> {
        let mut i = 0;
        while i < MCAP {
            if let Some((kk, v)) = &self.slots[i] {
                if kk == k {
                    return Some(v);
                }
            }
            i += 1;
        }
        None
    }
    pub fn insert(&mut self, k: K, v: V) -> Option<V> {
        let mut v = Some(v);
        let mut i = 0;
        while i < MCAP {
            if let Some((kk, old)) = &mut self.slots[i] {
                if *kk == k {
                    return Some(std::mem::replace(old, v.take().unwrap()));
                }
            }
            i += 1;
        }
        let mut i = 0;
        while i < MCAP {
            if self.slots[i].is_none() {
                self.slots[i] = Some((k, v.take().unwrap()));
                return None;
            }
            i += 1;
        }
        panic!("HashMap model capacity exceeded");
    }
    pub fn remove(&mut self, k: &K) -> Option<V> {
        let mut i = 0;
        while i < MCAP {
            let hit = matches!(&self.slots[i], Some((kk, _)) if kk == k);
            if hit {
                return self.slots[i].take().map(|(_, v)| v);
            }
            i += 1;
        }
        None
    }
    pub fn entry(&mut self, key: K) -> Entry<'_, K, V> {
        match self.find(&key) {
            Some(idx) => Entry::Occupied(OccupiedEntry { m: self, idx }),
            None => Entry::Vacant(VacantEntry { m: self, key }),
        }
    }
}
impl<'a, K: Copy + PartialEq, V> OccupiedEntry<'a, K, V> {
    pub fn get(&self) -> &V {
        let mut i = 0;
        while i < MCAP {
            if i == self.idx {
                if let Some((_, v)) = &self.m.slots[i] {
                    return v;
                }
            }
            i += 1;
        }
        panic!("occupied entry vanished");
    }
    pub fn remove_entry(self) -> (K, V) {
        let mut i = 0;
        while i < MCAP {
            if i == self.idx {
                if let Some(kv) = self.m.slots[i].take() {
                    return kv;
                }
            }
            i += 1;
        }
        panic!("occupied entry vanished");
    }
}
impl<'a, K: Copy + PartialEq, V> VacantEntry<'a, K, V> {
    pub fn insert(self, v: V) {
        self.m.insert(self.key, v);
    }
}

include!("generated/in_memory_store_c20.rs");

// ---- arbitrary consistent state --------------------------------------------------------------------
const U: u64 = 6; // heights 1..=6

struct Ghost {
    stored: u16,
    hashes: [u8; (U + 2) as usize],
    parents: [u8; (U + 2) as usize],
}

fn any_state() -> (InMemoryStoreInner, Ghost) {
    let stored: u16 = kani::any();
    let sampled: u16 = kani::any();
    let pruned: u16 = kani::any();
    let uni: u16 = ((1u32 << (U + 1)) - 2) as u16;
    kani::assume(stored & !uni == 0 && sampled & !stored == 0 && pruned & !uni == 0 && pruned & stored == 0);
    let hashes: [u8; (U + 2) as usize] = kani::any();
    let parents: [u8; (U + 2) as usize] = kani::any();
    let mut s = InMemoryStoreInner {
        headers: HashMap::new(),
        height_to_hash: HashMap::new(),
        header_ranges: BlockRanges(stored),
        sampling_data: HashMap::new(),
        sampled_ranges: BlockRanges(sampled),
        pruned_ranges: BlockRanges(pruned),
    };
    let mut h = 1u64;
    while h <= U {
        if (stored >> h) & 1 == 1 {
            // distinct hashes among stored headers; consecutive stored headers are linked
            let mut g = 1u64;
            while g < h {
                kani::assume((stored >> g) & 1 == 0 || hashes[g as usize] != hashes[h as usize]);
                g += 1;
            }
            if h > 1 && (stored >> (h - 1)) & 1 == 1 {
                kani::assume(parents[h as usize] == hashes[(h - 1) as usize]);
            }
            let hdr = ExtendedHeader { height: h, hash: Hash(hashes[h as usize]), parent: Hash(parents[h as usize]) };
            s.headers.insert(hdr.hash, hdr);
            s.height_to_hash.insert(h, hdr.hash);
        }
        h += 1;
    }
    (s, Ghost { stored, hashes, parents })
}

/// observable queries at a probe height / probe hash
fn observe(s: &InMemoryStoreInner, p: u64, q: Hash) -> (bool, Option<ExtendedHeader>, Option<ExtendedHeader>, u16, u16, u16, Option<u64>) {
    (
        s.contains_height(p),
        s.get_by_height(p).ok(),
        s.get_by_hash(&q).ok(),
        s.header_ranges.0,
        s.sampled_ranges.0,
        s.pruned_ranges.0,
        s.get_head_height().ok(),
    )
}

/// C21's invariant at a probe height
fn linked(s: &InMemoryStoreInner, p: u64) -> bool {
    let mut ok = true;
    if s.contains_height(p) {
        match s.get_by_height(p) {
            Ok(h) => {
                ok = ok && h.height == p;
                // looking it up by hash returns the same header at its height
                ok = ok && matches!(s.get_by_hash(&h.hash), Ok(x) if x == h);
                if s.contains_height(p + 1) {
                    ok = ok && matches!(s.get_by_height(p + 1), Ok(n) if h.verify(&n).is_ok());
                }
            }
            Err(_) => ok = false,
        }
    } else {
        ok = ok && s.get_by_height(p).is_err();
    }
    ok
}

fn probe() -> (u64, Hash) {
    let p: u64 = kani::any();
    kani::assume(p >= 1 && p <= U);
    (p, Hash(kani::any()))
}

fn insert_step(n: usize) {
    let (mut s, _g) = any_state();
    let (p, q) = probe();
    kani::assume(linked(&s, p));
    let before = observe(&s, p, q);
    // an internally verified batch of n headers (consecutive heights, linked); hashes are free
    let a: u64 = kani::any();
    kani::assume(a >= 1 && a <= U && a + (n as u64) - 1 <= U);
    let h0 = ExtendedHeader { height: a, hash: Hash(kani::any()), parent: Hash(kani::any()) };
    let h1 = ExtendedHeader { height: a + 1, hash: Hash(kani::any()), parent: h0.hash };
    kani::assume(n < 2 || h1.hash != h0.hash);
    let batch = VerifiedExtendedHeaders { items: [h0, h1], n };
    let res = crate::hx::run_ready(s.insert(batch));
    match &res {
        Err(_) => assert!(observe(&s, p, q) == before, "C20: a failed insert changed an observable query result"),
        Ok(()) => {
            assert!(linked(&s, p), "C21: after a successful insert consecutive stored headers are not linked / not indexed by hash");
            assert!(s.header_ranges.0 == before.3 | (((1u16 << n) - 1) << a), "C21: stored ranges after insert");
        }
    }
    kani::cover!(res.is_ok() && before.3 != 0, "witness: successful insert into a non-empty store");
    kani::cover!(matches!(res, Err(StoreError::InsertionFailed(StoreInsertionError::HashExists(_)))), "witness: duplicate hash");
    kani::cover!(matches!(res, Err(StoreError::InsertionFailed(StoreInsertionError::NeighborsVerificationFailed(_)))), "witness: neighbour mismatch");
    std::mem::forget(res);
    std::mem::forget(s);
}

// @verif prop=C20,C21 tier=quick shape="any consistent store over heights 1..=6; insert of a batch of 1 header (free height, hash, parent); probe height and probe hash free" funcs="InMemoryStoreInner::{insert,verify_against_neighbours,get_by_height,get_by_hash,contains_height,get_head_height}"
#[kani::proof]
#[kani::unwind(15)]
fn c20_insert_batch_of_1() {
    insert_step(1);
}

// @verif prop=C20,C21 tier=quick shape="any consistent store over heights 1..=6; insert of an internally linked batch of 2 headers (free heights, hashes); probe height and probe hash free" funcs="InMemoryStoreInner::{insert,verify_against_neighbours,get_by_height,get_by_hash,contains_height,get_head_height}"
#[kani::proof]
#[kani::unwind(15)]
fn c20_insert_batch_of_2() {
    insert_step(2);
}

// @verif prop=C20,C21 tier=quick shape="any consistent store over heights 1..=6; remove_height / mark_as_sampled of a free height; probe height and probe hash free" funcs="InMemoryStoreInner::{remove_height,mark_as_sampled,get_by_height,get_by_hash,contains_height}"
#[kani::proof]
#[kani::unwind(15)]
fn c20_remove_and_mark() {
    let (mut s, _g) = any_state();
    let (p, q) = probe();
    kani::assume(linked(&s, p));
    let before = observe(&s, p, q);
    let h: u64 = kani::any();
    kani::assume(h <= U + 1);
    let was_stored = s.contains_height(h);
    if kani::any() {
        let res = s.remove_height(h);
        match &res {
            Err(_) => assert!(!was_stored && observe(&s, p, q) == before, "C20: a failed remove changed the store (or a stored height could not be removed)"),
            Ok(()) => {
                assert!(was_stored && !s.contains_height(h) && s.get_by_height(h).is_err(), "C21: removed height still present");
                assert!(s.pruned_ranges.contains(h) && !s.sampled_ranges.contains(h), "C21: removed height not recorded as pruned / still sampled");
                assert!(linked(&s, p), "C21: after a removal stored headers are not linked / not indexed by hash");
                assert!(p == h || observe(&s, p, Hash(255)).1 == before.1, "C21: removing one height changed another");
            }
        }
        kani::cover!(res.is_ok(), "witness: removal");
        std::mem::forget(res);
    } else {
        let res = crate::hx::run_ready(s.mark_as_sampled(h));
        match &res {
            Err(_) => assert!(!was_stored && observe(&s, p, q) == before, "C20: a failed mark_as_sampled changed the store"),
            Ok(()) => assert!(was_stored && s.sampled_ranges.contains(h) && s.header_ranges.0 == before.3, "C21: mark_as_sampled"),
        }
        kani::cover!(res.is_ok(), "witness: marked");
        std::mem::forget(res);
    }
    std::mem::forget(s);
}
