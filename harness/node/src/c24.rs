//! C24: the syncer fetches missing, insertable heights nearest the head first.
//!
//! `calculate_range_to_fetch` is sliced verbatim out of /repo/node/src/syncer.rs; `tailn`/`headn`
//! are the real `BlockRangeExt` methods of the verbatim block_ranges.rs.
use crate::block_ranges::{BlockRange, BlockRangeExt};
use crate::common::*;

include!("generated/syncer_c24.rs");

fn check<const N: usize>() {
    let b = any_bounds::<N>();
    let synced: [BlockRange; N] = std::array::from_fn(|i| b[i].0..=b[i].1);
    let (head, limit, h): (u64, u64, u64) = kani::any();
    // Precondition (reachable syncer states): the subjective network head is never below a synced
    // height -- headers enter the store only from header-sub announcements (which raise the
    // subjective head first) or from batches computed by this very function (which are <= head).
    kani::assume(N == 0 || b[N - 1].1 <= head);

    let r = calculate_range_to_fetch(head, &synced[..], limit);

    let (s, e) = (*r.start(), *r.end());
    let empty = s > e;
    let synced_max = if N == 0 { 0 } else { b[N - 1].1 };
    let behind = N == 0 || synced_max < head;
    if !empty {
        assert!(s >= 1, "C24: batch contains height 0");
        assert!((e - s) < limit, "C24: batch larger than the batch size");
        assert!(e <= head, "C24: batch above the network head");
        assert!(!(s <= h && h <= e) || !mem(&b, h), "C24: batch contains a height that is already synced");
        if behind {
            assert!(s == synced_max + 1, "C24: batch not directly above the highest synced height");
        } else {
            assert!(e + 1 == b[N - 1].0, "C24: batch not directly below the highest synced range");
        }
    } else {
        // empty only if there is nothing to fetch in that position (or the batch size is 0)
        let something_above = behind && head >= 1 && synced_max < head;
        let prev_end = if N >= 2 { b[N - 2].1 } else { 0 };
        let something_below = !behind && b[N - 1].0 > prev_end + 1;
        assert!(limit == 0 || !(something_above || something_below), "C24: nothing requested although heights are missing next to the synced data");
    }
    kani::cover!(!empty && behind, "witness: forward batch");
    kani::cover!(!empty && !behind || N == 0, "witness: backward batch");
    kani::cover!(empty, "witness: nothing to fetch");
}

// @verif prop=C24 tier=quick shape="0 synced ranges; head, batch size free u64; probe height free u64" funcs="calculate_range_to_fetch,BlockRangeExt::tailn,BlockRangeExt::headn"
#[kani::proof]
#[kani::unwind(8)]
#[kani::solver(minisat)]
fn c24_range_to_fetch_n0() {
    check::<0>();
}

// @verif prop=C24 tier=quick shape="1 synced range (free u64 bounds); head, batch size free u64; probe height free u64" funcs="calculate_range_to_fetch,BlockRangeExt::tailn,BlockRangeExt::headn"
#[kani::proof]
#[kani::unwind(8)]
#[kani::solver(minisat)]
fn c24_range_to_fetch_n1() {
    check::<1>();
}

// @verif prop=C24 tier=quick shape="2 synced ranges (free u64 bounds); head, batch size free u64; probe height free u64" funcs="calculate_range_to_fetch,BlockRangeExt::tailn,BlockRangeExt::headn"
#[kani::proof]
#[kani::unwind(8)]
#[kani::solver(minisat)]
fn c24_range_to_fetch_n2() {
    check::<2>();
}

// @verif prop=C24 tier=quick shape="3 synced ranges (free u64 bounds); head, batch size free u64; probe height free u64" funcs="calculate_range_to_fetch,BlockRangeExt::tailn,BlockRangeExt::headn"
#[kani::proof]
#[kani::unwind(8)]
#[kani::solver(minisat)]
fn c24_range_to_fetch_n3() {
    check::<3>();
}

// @verif prop=C24 tier=thorough shape="4 synced ranges (free u64 bounds); head, batch size free u64; probe height free u64" funcs="calculate_range_to_fetch,BlockRangeExt::tailn,BlockRangeExt::headn"
#[kani::proof]
#[kani::unwind(8)]
#[kani::solver(minisat)]
fn c24_range_to_fetch_n4() {
    check::<4>();
}

// @verif prop=C24 tier=thorough shape="5 synced ranges (free u64 bounds); head, batch size free u64; probe height free u64" funcs="calculate_range_to_fetch,BlockRangeExt::tailn,BlockRangeExt::headn"
#[kani::proof]
#[kani::unwind(8)]
#[kani::solver(minisat)]
fn c24_range_to_fetch_n5() {
    check::<5>();
}
