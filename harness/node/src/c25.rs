//! C25: the syncer never re-requests history behind a pruned window edge.
//!
//! `Worker::fetch_next_batch`, `Worker::in_sampling_window`, `calculate_range_to_fetch` and
//! `SLOW_SYNC_MIN_THRESHOLD` are sliced verbatim from /repo/node/src/syncer.rs; `tailn`/`headn`
//! are the real `BlockRangeExt` of the verbatim block_ranges.rs. Environment: a store over heights
//! 1..=12 (bitsets, header times for EVERY height -- also the pruned ones, as ghost state), a model
//! p2p that only records the requested range, a symbolic clock.
use crate::block_ranges::{BlockRange, BlockRangeExt};
use crate::models::bitranges::MAXH;

type Result<T, E = SyncerError> = std::result::Result<T, E>;

#[derive(Debug)]
pub enum StoreError {
    NotFound,
    Other,
}
#[derive(Debug)]
pub enum P2pError {
    Other,
}
#[derive(Debug)]
pub enum SyncerError {
    P2p(P2pError),
    Store(StoreError),
}
impl From<StoreError> for SyncerError {
    fn from(e: StoreError) -> Self {
        SyncerError::Store(e)
    }
}

// ---- time -------------------------------------------------------------------------------------
#[derive(Clone, Copy, PartialEq, PartialOrd, Debug)]
pub struct Time(pub u64);
#[derive(Clone, Copy, Debug)]
pub struct Duration(pub u64);
static mut NOW: u64 = 0;
impl Time {
    pub fn now() -> Time {
        Time(unsafe { NOW })
    }
    pub fn saturating_sub(self, d: Duration) -> Time {
        Time(self.0.saturating_sub(d.0))
    }
    pub fn after(&self, other: Time) -> bool {
        self.0 > other.0
    }
}
pub struct Instant;
impl Instant {
    pub fn now() -> Instant {
        Instant
    }
    pub fn elapsed(&self) -> Duration {
        Duration(0)
    }
}

// ---- ranges: set of heights 1..=12 that can hand out its maximal runs as a slice -----------------
#[derive(Clone, Debug)]
pub struct BlockRanges {
    bits: u16,
    runs: [BlockRange; 7],
    n: usize,
}
impl BlockRanges {
    pub fn from_bits(bits: u16) -> Self {
        let mut runs: [BlockRange; 7] = std::array::from_fn(|_| 1..=0);
        let mut n = 0usize;
        let mut start = 0u64;
        let mut h = 1u64;
        while h <= MAXH + 1 {
            let inside = h <= MAXH && (bits >> h) & 1 == 1;
            if inside && start == 0 {
                start = h;
            }
            if !inside && start != 0 {
                let mut k = 0;
                while k < 7 {
                    if k == n {
                        runs[k] = start..=h - 1;
                    }
                    k += 1;
                }
                n += 1;
                start = 0;
            }
            h += 1;
        }
        BlockRanges { bits, runs, n }
    }
    pub fn contains(&self, h: u64) -> bool {
        h >= 1 && h <= MAXH && (self.bits >> h) & 1 == 1
    }
    pub fn len(&self) -> u64 {
        self.bits.count_ones() as u64
    }
    pub fn is_empty(&self) -> bool {
        self.bits == 0
    }
    pub fn head(&self) -> Option<u64> {
        let mut h = MAXH;
        while h >= 1 {
            if self.contains(h) {
                return Some(h);
            }
            h -= 1;
        }
        None
    }
}
impl AsRef<[BlockRange]> for BlockRanges {
    fn as_ref(&self) -> &[BlockRange] {
        &self.runs[..self.n]
    }
}
impl std::ops::Add<&BlockRanges> for BlockRanges {
    type Output = BlockRanges;
    fn add(self, o: &BlockRanges) -> BlockRanges {
        BlockRanges::from_bits(self.bits | o.bits)
    }
}
impl std::ops::Sub for BlockRanges {
    type Output = BlockRanges;
    fn sub(self, o: BlockRanges) -> BlockRanges {
        BlockRanges::from_bits(self.bits & !o.bits)
    }
}
impl std::ops::Sub<&BlockRanges> for BlockRanges {
    type Output = BlockRanges;
    fn sub(self, o: &BlockRanges) -> BlockRanges {
        BlockRanges::from_bits(self.bits & !o.bits)
    }
}

// ---- store / p2p / events ---------------------------------------------------------------------
pub struct ExtendedHeader {
    height: u64,
    time: Time,
}
impl ExtendedHeader {
    pub fn time(&self) -> Time {
        self.time
    }
    pub fn height(&self) -> u64 {
        self.height
    }
}

pub struct ModelStore {
    stored: u16,
    pruned: u16,
    sampled: u16,
    times: [u64; (MAXH + 2) as usize],
}
impl ModelStore {
    async fn get_stored_header_ranges(&self) -> std::result::Result<BlockRanges, StoreError> {
        Ok(BlockRanges::from_bits(self.stored))
    }
    async fn get_pruned_ranges(&self) -> std::result::Result<BlockRanges, StoreError> {
        Ok(BlockRanges::from_bits(self.pruned))
    }
    async fn get_sampled_ranges(&self) -> std::result::Result<BlockRanges, StoreError> {
        Ok(BlockRanges::from_bits(self.sampled))
    }
    async fn get_by_height(&self, h: u64) -> std::result::Result<ExtendedHeader, StoreError> {
        if h >= 1 && h <= MAXH && (self.stored >> h) & 1 == 1 {
            let mut i = 0;
            while i <= MAXH {
                if i == h {
                    return Ok(ExtendedHeader { height: h, time: Time(self.times[i as usize]) });
                }
                i += 1;
            }
        }
        Err(StoreError::NotFound)
    }
}

pub struct PeerTrackerInfo {
    pub num_connected_peers: u64,
}
#[derive(Clone)]
pub struct P2p {
    peers: u64,
}
impl P2p {
    pub fn peer_tracker_info(&self) -> PeerTrackerInfo {
        PeerTrackerInfo { num_connected_peers: self.peers }
    }
    pub async fn get_unverified_header_range(&self, _range: BlockRange) -> std::result::Result<std::vec::Vec<ExtendedHeader>, P2pError> {
        Err(P2pError::Other)
    }
}
pub enum NodeEvent {
    FetchingHeadersStarted { from_height: u64, to_height: u64 },
}
pub struct EventPublisher {
    sent: u32,
}
impl EventPublisher {
    pub fn send(&mut self, _e: NodeEvent) {
        self.sent += 1;
    }
}

/// `FusedReusableFuture` model: remembers whether a task was set; the task itself (the network
/// round trip) is never run -- only the fact and the range of the request matter here.
pub struct TaskSlot {
    set: bool,
}
impl TaskSlot {
    pub fn is_terminated(&self) -> bool {
        !self.set
    }
    pub fn set<F: std::future::Future>(&mut self, fut: F) {
        std::mem::forget(fut);
        self.set = true;
    }
}
pub struct Ongoing {
    range: Option<BlockRange>,
    task: TaskSlot,
}

pub struct Worker {
    event_pub: EventPublisher,
    p2p: P2p,
    store: ModelStore,
    subjective_head_height: Option<u64>,
    highest_slow_sync_height: Option<u64>,
    batch_size: u64,
    ongoing_batch: Ongoing,
    sampling_window: Duration,
}

include!("generated/syncer_c25.rs");

fn fetch(with_pruned: bool) {
    let stored: u16 = kani::any();
    let pruned: u16 = if with_pruned { kani::any() } else { 0 };
    let sampled: u16 = kani::any();
    let universe: u16 = ((1u32 << (MAXH + 1)) - 2) as u16;
    kani::assume(stored & !universe == 0 && pruned & !universe == 0);
    kani::assume(stored & pruned == 0 && sampled & !stored == 0);
    kani::assume(!with_pruned || pruned != 0);
    let times: [u64; (MAXH + 2) as usize] = kani::any();
    let mut i = 1;
    while i <= MAXH + 1 {
        kani::assume(times[i as usize - 1] < times[i as usize]);
        i += 1;
    }
    let synced = stored | pruned;
    let head: u64 = kani::any();
    kani::assume(head >= 1 && head <= MAXH);
    // the subjective head is never below a synced height (see C24)
    kani::assume(synced >> (head + 1) == 0);
    let now: u64 = kani::any();
    let window: u64 = kani::any();
    unsafe { NOW = now };
    // consistency of reachable states: the pruner only removes headers outside the sampling
    // window unless they are sampled non-edge headers (C35); in particular a pruned height that
    // bounds an unsynced gap from above was outside the window when it was pruned and still is
    let cutoff = now.saturating_sub(window);
    let mut h = 1u64;
    while h <= MAXH {
        let is_pruned = (pruned >> h) & 1 == 1;
        let gap_below = h >= 2 && (synced >> (h - 1)) & 1 == 0;
        kani::assume(!(is_pruned && gap_below) || times[h as usize] <= cutoff);
        h += 1;
    }
    let mut w = Worker {
        event_pub: EventPublisher { sent: 0 },
        p2p: P2p { peers: kani::any() },
        store: ModelStore { stored, pruned, sampled, times },
        subjective_head_height: if kani::any() { Some(head) } else { None },
        highest_slow_sync_height: if kani::any() { Some(kani::any()) } else { None },
        batch_size: kani::any(),
        ongoing_batch: Ongoing { range: None, task: TaskSlot { set: false } },
        sampling_window: Duration(window),
    };
    kani::assume(w.batch_size >= 1 && w.batch_size <= 512);
    let res = crate::hx::run_ready(w.fetch_next_batch());
    assert!(res.is_ok(), "C25: fetch_next_batch failed on a consistent store");
    assert!(w.ongoing_batch.range.is_some() == w.ongoing_batch.task.set, "C25: ongoing range and task out of step");
    if let Some(r) = &w.ongoing_batch.range {
        let (s, e) = (*r.start(), *r.end());
        assert!(s >= 1 && s <= e && e <= head, "C25: requested batch is empty or above the head");
        assert!(e - s < w.batch_size, "C25: requested batch larger than the batch size");
        let p: u64 = kani::any();
        kani::assume(p >= s && p <= e);
        assert!((synced >> p) & 1 == 0, "C25: requested batch contains a synced (stored or pruned) height");
        // the decisive clause: a synced header right above the batch must be inside the sampling window
        if e < MAXH && (synced >> (e + 1)) & 1 == 1 {
            assert!(times[(e + 1) as usize] > cutoff, "C25: batch requested below a synced header that is older than the sampling window");
        }
        assert!(w.p2p.peers > 0, "C25: batch requested without connected peers");
    }
    kani::cover!(w.ongoing_batch.range.is_some(), "witness: a batch is requested");
    kani::cover!(w.ongoing_batch.range.is_none() && w.p2p.peers > 0 && w.subjective_head_height.is_some() && synced != 0, "witness: nothing requested");
}

// @verif prop=C25 tier=quick shape="nothing pruned: any stored/sampled subsets of heights 1..=12, free increasing times, free clock/window/head/batch size/slow-sync height/peer count" funcs="Worker::fetch_next_batch,Worker::in_sampling_window,calculate_range_to_fetch,BlockRangeExt::{tailn,headn}"
#[kani::proof]
#[kani::unwind(15)]
fn c25_fetch_next_batch_nothing_pruned() {
    fetch(false);
}

// @verif prop=C25 tier=quick shape="some heights pruned: any stored/pruned/sampled subsets of heights 1..=12 (pruned disjoint from stored; a pruned height above an unsynced gap is outside the sampling window), free increasing times, free clock/window/head/batch size/slow-sync height/peer count" funcs="Worker::fetch_next_batch,Worker::in_sampling_window,calculate_range_to_fetch,BlockRangeExt::{tailn,headn}"
#[kani::proof]
#[kani::unwind(15)]
fn c25_fetch_next_batch_with_pruned_heights() {
    fetch(true);
}
