//! C26: a header session returns exactly the requested range.
//!
//! Sliced verbatim from /repo/node/src/p2p/header_session.rs: the three constants, the `Result`
//! and `TaskResult` aliases, `struct HeaderSession`, the whole `impl HeaderSession` block and
//! `take_next_batch`; `HeaderRequestExt` from header_ex/utils.rs; `tailn`/`headn`/`len` are the
//! real `BlockRangeExt`. Environment (this file): the p2p worker + network answer every request
//! at once with an ADVERSARIAL answer (full, any strict prefix incl. empty, or a header-ex error),
//! and the order in which finished requests are handed back to the session is ANY order
//! (`FuturesUnordered::next` picks any finished task). `Vec<ExtendedHeader>` is a list of runs of
//! consecutive heights, so ranges of hundreds of headers stay small.
use crate::block_ranges::{BlockRange, BlockRangeExt};
use crate::hx::header_request::Data;
use crate::hx::{run_ready, BoxFuture, FutureExt, Hash, HeaderRequest, MVec};
use celestia_types::consts::HASH_SIZE;

macro_rules! debug {
    ($($t:tt)*) => {};
}

// ---- errors -------------------------------------------------------------------------------------
#[derive(Debug)]
pub enum HeaderExError {
    InvalidResponse,
    InvalidRequest,
    HeaderNotFound,
}
#[derive(Debug)]
pub enum P2pError {
    HeaderEx(HeaderExError),
    WorkerDied,
    ChannelClosedUnexpectedly,
}
impl From<oneshot::RecvError> for P2pError {
    fn from(_: oneshot::RecvError) -> Self {
        P2pError::ChannelClosedUnexpectedly
    }
}

// ---- header vectors as lists of runs ---------------------------------------------------------------
#[derive(Clone, Copy, Debug, PartialEq)]
pub struct ExtendedHeader {
    height: u64,
}
impl ExtendedHeader {
    pub fn height(&self) -> u64 {
        self.height
    }
}
pub const RUNS: usize = 6;
#[derive(Clone, Copy, Debug, PartialEq)]
pub struct Run {
    pub start: u64,
    pub len: u64,
}
pub trait VElem: Sized {
    type Store;
    type Chunk;
    fn new_store() -> Self::Store;
    fn store_len(s: &Self::Store) -> usize;
    fn first(s: &Self::Store) -> Option<&Self>;
    fn push_chunk(s: &mut Self::Store, c: Self::Chunk);
    fn take_chunk(s: &mut Self::Store, i: usize) -> Option<Self::Chunk>;
    fn chunks(s: &Self::Store) -> usize;
}
pub struct Vec<T: VElem> {
    store: T::Store,
}
impl<T: VElem> Vec<T> {
    pub fn new() -> Self {
        Vec { store: T::new_store() }
    }
    pub fn len(&self) -> usize {
        T::store_len(&self.store)
    }
    pub fn is_empty(&self) -> bool {
        self.len() == 0
    }
    pub fn first(&self) -> Option<&T> {
        T::first(&self.store)
    }
}
pub struct HeaderRuns {
    runs: [Run; RUNS],
    n: usize,
    first: ExtendedHeader,
}
impl VElem for ExtendedHeader {
    type Store = HeaderRuns;
    type Chunk = Run;
    fn new_store() -> HeaderRuns {
        HeaderRuns { runs: [Run { start: 0, len: 0 }; RUNS], n: 0, first: ExtendedHeader { height: 0 } }
    }
    fn store_len(s: &HeaderRuns) -> usize {
        let mut t = 0u64;
        let mut i = 0;
        while i < RUNS {
            if i < s.n {
                t += s.runs[i].len;
            }
            i += 1;
        }
        t as usize
    }
    fn first(s: &HeaderRuns) -> Option<&ExtendedHeader> {
        if s.n == 0 { None } else { Some(&s.first) }
    }
    fn push_chunk(s: &mut HeaderRuns, c: Run) {
        if c.len == 0 {
            return;
        }
        assert!(s.n < RUNS, "header-run model capacity exceeded");
        if s.n == 0 {
            s.first = ExtendedHeader { height: c.start };
        }
        let mut i = 0;
        while i < RUNS {
            if i == s.n {
                s.runs[i] = c;
            }
            i += 1;
        }
        s.n += 1;
    }
    fn take_chunk(s: &mut HeaderRuns, i: usize) -> Option<Run> {
        let mut k = 0;
        while k < RUNS {
            if k == i && k < s.n {
                return Some(s.runs[k]);
            }
            k += 1;
        }
        None
    }
    fn chunks(s: &HeaderRuns) -> usize {
        s.n
    }
}
impl Vec<ExtendedHeader> {
    pub fn from_run(start: u64, len: u64) -> Self {
        let mut v = Vec::new();
        ExtendedHeader::push_chunk(&mut v.store, Run { start, len });
        v
    }
    pub fn run(&self, i: usize) -> Option<Run> {
        let mut k = 0;
        while k < RUNS {
            if k == i && k < self.store.n {
                return Some(self.store.runs[k]);
            }
            k += 1;
        }
        None
    }
    pub fn runs(&self) -> usize {
        self.store.n
    }
}
pub struct Spans {
    items: [Option<Vec<ExtendedHeader>>; RUNS],
    n: usize,
}
impl VElem for Vec<ExtendedHeader> {
    type Store = Spans;
    type Chunk = Vec<ExtendedHeader>;
    fn new_store() -> Spans {
        Spans { items: std::array::from_fn(|_| None), n: 0 }
    }
    fn store_len(s: &Spans) -> usize {
        s.n
    }
    fn first(s: &Spans) -> Option<&Vec<ExtendedHeader>> {
        s.items[0].as_ref()
    }
    fn push_chunk(s: &mut Spans, c: Vec<ExtendedHeader>) {
        assert!(s.n < RUNS, "span-list model capacity exceeded");
        let mut c = Some(c);
        let mut i = 0;
        while i < RUNS {
            if i == s.n {
                s.items[i] = c.take();
            }
            i += 1;
        }
        s.n += 1;
    }
    fn take_chunk(s: &mut Spans, i: usize) -> Option<Vec<ExtendedHeader>> {
        let mut k = 0;
        while k < RUNS {
            if k == i && k < s.n {
                return s.items[k].take();
            }
            k += 1;
        }
        None
    }
    fn chunks(s: &Spans) -> usize {
        s.n
    }
}
impl Vec<Vec<ExtendedHeader>> {
    pub fn push(&mut self, v: Vec<ExtendedHeader>) {
        <Vec<ExtendedHeader> as VElem>::push_chunk(&mut self.store, v);
    }
    /// selection sort by key (keys are recomputed; at most RUNS elements)
    pub fn sort_unstable_by_key<K: Ord, F: FnMut(&Vec<ExtendedHeader>) -> K>(&mut self, mut f: F) {
        let n = self.store.n;
        let mut out: [Option<Vec<ExtendedHeader>>; RUNS] = std::array::from_fn(|_| None);
        let mut p = 0;
        while p < RUNS {
            if p < n {
                let mut best: Option<usize> = None;
                let mut i = 0;
                while i < RUNS {
                    if i < n {
                        if let Some(x) = self.store.items[i].as_ref() {
                            let better = match best {
                                None => true,
                                Some(b) => f(x) < f(self.store.items[b].as_ref().unwrap()),
                            };
                            if better {
                                best = Some(i);
                            }
                        }
                    }
                    i += 1;
                }
                out[p] = self.store.items[best.unwrap()].take();
            }
            p += 1;
        }
        self.store.items = out;
    }
}
pub struct IntoChunks<T: VElem> {
    v: Vec<T>,
    pos: usize,
}
impl<T: VElem> Iterator for IntoChunks<T> {
    type Item = T::Chunk;
    fn next(&mut self) -> Option<T::Chunk> {
        if self.pos < T::chunks(&self.v.store) {
            let c = T::take_chunk(&mut self.v.store, self.pos);
            self.pos += 1;
            c
        } else {
            None
        }
    }
}
impl<T: VElem> IntoIterator for Vec<T> {
    type Item = T::Chunk;
    type IntoIter = IntoChunks<T>;
    fn into_iter(self) -> IntoChunks<T> {
        IntoChunks { v: self, pos: 0 }
    }
}
impl<T: VElem> FromIterator<T::Chunk> for Vec<T> {
    fn from_iter<I: IntoIterator<Item = T::Chunk>>(it: I) -> Self {
        let mut v = Vec::new();
        for c in it {
            T::push_chunk(&mut v.store, c);
        }
        v
    }
}

// ---- the p2p worker + network: adversarial answers, ghost bookkeeping for one probe height ---------
pub struct Net {
    range_start: u64,
    range_end: u64,
    probe: u64,
    probe_outstanding: u32,
    probe_received: bool,
    budget: u32,
    requests: u32,
}
static mut NET: Net = Net { range_start: 0, range_end: 0, probe: 0, probe_outstanding: 0, probe_received: false, budget: 0, requests: 0 };

pub enum P2pCmd {
    HeaderExRequest {
        request: HeaderRequest,
        respond_to: oneshot::Sender<Result<Vec<ExtendedHeader>, P2pError>>,
    },
}

pub mod mpsc {
    use super::*;
    pub struct SendError;
    pub struct Sender<T> {
        pub _p: std::marker::PhantomData<T>,
    }
    impl<T> Clone for Sender<T> {
        fn clone(&self) -> Self {
            Sender { _p: std::marker::PhantomData }
        }
    }
    impl Sender<P2pCmd> {
        pub async fn send(&self, cmd: P2pCmd) -> std::result::Result<(), SendError> {
            let P2pCmd::HeaderExRequest { request, respond_to } = cmd;
            let net = unsafe { &mut *(&raw mut NET) };
            net.requests += 1;
            let (origin, amount) = match request.data {
                Some(Data::Origin(o)) => (o, request.amount),
                _ => {
                    assert!(false, "C26: the session issued a request that is not a height request");
                    (0, 0)
                }
            };
            // every request is a non-empty sub-range of not-yet-received heights of at most 64 headers
            assert!(request.is_valid(), "C26: the session issued an invalid request");
            assert!(amount >= 1 && amount <= 64, "C26: request for 0 or more than 64 headers");
            assert!(origin >= net.range_start && amount - 1 <= net.range_end - origin, "C26: request outside of the session's range");
            let covers = net.probe >= origin && net.probe - origin < amount;
            if covers {
                assert!(!net.probe_received, "C26: a height that was already received is requested again");
                assert!(net.probe_outstanding == 0, "C26: a height is requested by two outstanding requests");
                net.probe_outstanding += 1;
            }
            // adversarial answer: full, a strict prefix (possibly empty), or a header-ex error
            let kind: u8 = if net.budget > 0 { kani::any() } else { 0 };
            let answer = if kind == 0 {
                Ok(Vec::from_run(origin, amount))
            } else if kind == 1 {
                net.budget -= 1;
                let k: u64 = kani::any();
                kani::assume(k < amount);
                Ok(Vec::from_run(origin, k))
            } else {
                net.budget -= 1;
                Err(P2pError::HeaderEx(HeaderExError::HeaderNotFound))
            };
            if covers {
                net.probe_outstanding -= 1;
                if let Ok(v) = &answer {
                    if let Some(r) = v.run(0) {
                        if net.probe - r.start < r.len {
                            net.probe_received = true;
                        }
                    }
                }
            }
            respond_to.send(answer);
            Ok(())
        }
    }
}

pub mod oneshot {
    use std::cell::RefCell;
    use std::future::Future;
    use std::pin::Pin;
    use std::rc::Rc;
    use std::task::{Context, Poll};
    #[derive(Debug)]
    pub struct RecvError;
    pub struct Sender<T>(Rc<RefCell<Option<T>>>);
    pub struct Receiver<T>(Rc<RefCell<Option<T>>>);
    pub fn channel<T>() -> (Sender<T>, Receiver<T>) {
        let c = Rc::new(RefCell::new(None));
        (Sender(c.clone()), Receiver(c))
    }
    impl<T> Sender<T> {
        pub fn send(self, v: T) {
            *self.0.borrow_mut() = Some(v);
            std::mem::forget(self);
        }
    }
    impl<T> Future for Receiver<T> {
        type Output = Result<T, RecvError>;
        fn poll(self: Pin<&mut Self>, _cx: &mut Context<'_>) -> Poll<Self::Output> {
            match self.0.borrow_mut().take() {
                Some(v) => Poll::Ready(Ok(v)),
                None => Poll::Ready(Err(RecvError)),
            }
        }
    }
}

/// `FuturesUnordered` + `StreamExt::next`: tasks are finished when pushed (eager `BoxFuture`);
/// `next()` hands back ANY of them -- the completion order is the adversary's choice.
pub const SLOTS: usize = 8;
pub struct FuturesUnordered<F> {
    slots: [Option<F>; SLOTS],
}
impl<T> FuturesUnordered<BoxFuture<'static, T>> {
    pub fn new() -> Self {
        FuturesUnordered { slots: std::array::from_fn(|_| None) }
    }
    pub fn push(&mut self, f: BoxFuture<'static, T>) {
        let mut i = 0;
        while i < SLOTS {
            if self.slots[i].is_none() {
                self.slots[i] = Some(f);
                return;
            }
            i += 1;
        }
        panic!("C26: more than 8 concurrent requests");
    }
    pub async fn next(&mut self) -> Option<T> {
        let mut any = false;
        let mut i = 0;
        while i < SLOTS {
            any = any || self.slots[i].is_some();
            i += 1;
        }
        if !any {
            return None;
        }
        let pick: usize = kani::any();
        kani::assume(pick < SLOTS);
        let mut i = 0;
        while i < SLOTS {
            if i == pick {
                kani::assume(self.slots[i].is_some());
                let f = self.slots[i].take().unwrap();
                return Some(f.await);
            }
            i += 1;
        }
        None
    }
}

include!("generated/header_session_c26.rs");

fn session(max_len: u64, budget: u32) {
    let (start, len): (u64, u64) = kani::any();
    kani::assume(start >= 1 && start <= (1u64 << 40) && len >= 1 && len <= max_len);
    let end = start + len - 1;
    let probe: u64 = kani::any();
    kani::assume(probe >= start && probe <= end);
    unsafe {
        NET = Net { range_start: start, range_end: end, probe, probe_outstanding: 0, probe_received: false, budget, requests: 0 };
    }
    let mut s = HeaderSession::new(start..=end, mpsc::Sender { _p: std::marker::PhantomData });
    assert!(s.batch_size >= 8 && s.batch_size <= 64, "C26: batch size outside 8..=64");
    let res = run_ready(s.run());
    match res {
        Ok(headers) => {
            // exactly the range, ascending, each height once
            assert!(headers.len() as u64 == len, "C26: a completed session returned a wrong number of headers");
            let mut occurrences = 0u32;
            let mut prev_end: u64 = 0;
            let mut i = 0;
            while i < RUNS {
                if let Some(r) = headers.run(i) {
                    assert!(r.len >= 1 && r.start >= start && r.len - 1 <= end - r.start, "C26: returned headers outside of the range");
                    assert!(i == 0 || r.start > prev_end, "C26: returned headers are not in ascending order / overlap");
                    prev_end = r.start + r.len - 1;
                    if probe >= r.start && probe - r.start < r.len {
                        occurrences += 1;
                    }
                }
                i += 1;
            }
            assert!(occurrences == 1, "C26: a height of the range is missing from (or duplicated in) the result");
            assert!(unsafe { NET.probe_received }, "C26: a returned height was never received from the network");
        }
        Err(_) => assert!(false, "C26: session failed although peers only truncated or returned header-ex errors"),
    }
    kani::cover!(unsafe { NET.requests } >= 3, "witness: at least 3 requests");
    kani::cover!(unsafe { NET.budget } < budget, "witness: an adversarial answer was given");
    std::mem::forget(s);
}

// NOTE: a whole-`run()` harness (`session(8, 1)`: ranges of at most one batch, one adversarial
// answer, any completion order) does not terminate within 1500 s on either SAT back end, so the run
// loop is outside the claim; `session` is kept for experiments and is not registered.
#[allow(dead_code)]
fn session_experiment() {
    session(8, 1);
}

// @verif prop=C26 tier=quick shape="session state: to_fetch = any range (free u64 bounds) or nothing, batch size free in 8..=64; one send_next_request step" funcs="HeaderSession::{send_next_request,send_request},take_next_batch,HeaderRequestExt::{with_origin,is_valid}"
#[kani::proof]
#[kani::unwind(10)]
fn c26_send_next_request_step() {
    let (a, b): (u64, u64) = kani::any();
    kani::assume(a >= 1 && a <= b && b <= (1u64 << 62));
    let some: bool = kani::any();
    let batch: u64 = kani::any();
    kani::assume(batch >= 8 && batch <= 64);
    let probe: u64 = kani::any();
    kani::assume(probe >= a && probe <= b);
    unsafe {
        NET = Net { range_start: a, range_end: b, probe, probe_outstanding: 0, probe_received: false, budget: 0, requests: 0 };
    }
    let mut s = HeaderSession {
        to_fetch: if some { Some(a..=b) } else { None },
        cmd_tx: mpsc::Sender { _p: std::marker::PhantomData },
        tasks: FuturesUnordered::new(),
        batch_size: batch,
    };
    run_ready(s.send_next_request());
    // the request-level assertions (valid, 1..=64 headers, inside the range) fire inside the network model
    let n = unsafe { NET.requests };
    assert!(n == if some { 1 } else { 0 }, "C26: send_next_request must issue exactly one request while heights remain");
    if let Some(rest) = &s.to_fetch {
        assert!(*rest.start() == a && (*rest.end() - a) + 1 + batch == (b - a) + 1, "C26: the remainder is not the range minus one full batch from the top");
    } else if some {
        assert!(b - a < batch, "C26: heights were dropped");
    }
    kani::cover!(some && s.to_fetch.is_some(), "witness: more batches remain");
    kani::cover!(some && s.to_fetch.is_none(), "witness: last batch");
    std::mem::forget(s);
}

// @verif prop=C26 tier=quick shape="any range (free u64 start, length 1..=2^40)" funcs="HeaderSession::new,BlockRangeExt::len"
#[kani::proof]
#[kani::unwind(10)]
fn c26_batch_size_is_clamped() {
    let (a, len): (u64, u64) = kani::any();
    kani::assume(a >= 1 && a <= (1u64 << 62) && len >= 1 && len <= (1u64 << 40));
    let s = HeaderSession::new(a..=a + len - 1, mpsc::Sender { _p: std::marker::PhantomData });
    assert!(s.batch_size >= 8 && s.batch_size <= 64, "C26: batch size outside 8..=64");
    // at most 8 batches are needed whenever 8 batches of at most 64 can cover the range
    assert!(len > 512 || s.batch_size * 8 >= len, "C26: a range of at most 512 headers does not fit in 8 batches");
    kani::cover!(s.batch_size == 64, "witness: maximal batch");
    kani::cover!(s.batch_size == 8, "witness: minimal batch");
    std::mem::forget(s);
}


// @verif prop=C26 tier=quick shape="to_fetch = none or any range (free u64 bounds, start >= 1), limit free u64" funcs="take_next_batch,BlockRangeExt::len"
#[kani::proof]
#[kani::unwind(4)]
fn c26_take_next_batch_step() {
    let (a, b, limit): (u64, u64, u64) = kani::any();
    kani::assume(a >= 1 && a <= b);
    let mut to_fetch: Option<BlockRange> = if kani::any() { Some(a..=b) } else { None };
    let had = to_fetch.is_some();
    let got = take_next_batch(&mut to_fetch, limit);
    match &got {
        Some(r) => {
            assert!(had && limit >= 1, "C26 take_next_batch: produced a batch from nothing");
            let (s, e) = (*r.start(), *r.end());
            assert!(s >= a && e == b && s <= e, "C26 take_next_batch: batch is not the top of the remaining range");
            assert!(e - s < limit, "C26 take_next_batch: batch larger than the limit");
            match &to_fetch {
                Some(rest) => assert!(*rest.start() == a && *rest.end() + 1 == s, "C26 take_next_batch: remainder is not what is left below the batch"),
                None => assert!(s == a, "C26 take_next_batch: heights dropped"),
            }
        }
        None => assert!(!had || limit == 0, "C26 take_next_batch: nothing taken although heights remain"),
    }
    kani::cover!(to_fetch.is_some() && got.is_some(), "witness: split");
    kani::cover!(to_fetch.is_none() && got.is_some(), "witness: last batch");
}
