//! C27: verified header range requests terminate and never panic.
//!
//! `P2p::get_verified_headers_range` is sliced verbatim from /repo/node/src/p2p.rs. It is run
//! against a model session that stands for "the network serves every requested header": the
//! session returns exactly the heights of the range it was created with. The real session, given
//! an EMPTY range, issues a zero-amount request that the real client rejects as invalid and that
//! the session re-sends forever (shown on the sliced session in c26.rs), so creating a session for
//! an empty range is flagged here as the "does not return promptly" violation.
use crate::block_ranges::{BlockRange, BlockRangeExt};
use crate::hx::run_ready;

type Result<T, E = P2pError> = std::result::Result<T, E>;

#[derive(Debug)]
pub enum HeaderExError {
    InvalidRequest,
    InvalidResponse,
}
#[derive(Debug)]
pub enum P2pError {
    HeaderEx(HeaderExError),
    WorkerDied,
}
impl From<HeaderExError> for P2pError {
    fn from(e: HeaderExError) -> Self {
        P2pError::HeaderEx(e)
    }
}

/// Header model for this suite: height, whether it validates, and what `verify_adjacent_range`
/// must see (the first served height and the count) to accept.
#[derive(Clone, Debug)]
pub struct ExtendedHeader {
    height: u64,
    valid: bool,
}
impl ExtendedHeader {
    pub fn validate(&self) -> std::result::Result<(), ()> {
        if self.valid { Ok(()) } else { Err(()) }
    }
    pub fn height(&self) -> u64 {
        self.height
    }
    /// accepts exactly consecutive heights starting right above `self`
    pub fn verify_adjacent_range(&self, headers: &Served) -> std::result::Result<(), ()> {
        if headers.len == 0 || headers.start == self.height + 1 { Ok(()) } else { Err(()) }
    }
}

/// `Vec<ExtendedHeader>` as named by the sliced function: what the model network serves is the
/// run `start..start+len` (the function only creates it empty, passes it on and returns it).
#[derive(Debug, Clone, Copy, PartialEq)]
pub struct Vec<T> {
    pub start: u64,
    pub len: u64,
    _p: std::marker::PhantomData<T>,
}
impl<T> Vec<T> {
    pub fn new() -> Self {
        Vec { start: 0, len: 0, _p: std::marker::PhantomData }
    }
    pub fn is_empty(&self) -> bool {
        self.len == 0
    }
    pub fn len(&self) -> usize {
        self.len as usize
    }
}
macro_rules! vec {
    () => { Vec::new() };
}
pub type Served = Vec<ExtendedHeader>;

#[derive(Clone)]
pub struct CmdTx;

pub struct P2p {
    cmd_tx: CmdTx,
}

static mut SESSION_RANGE: Option<(u64, u64)> = None;
static mut SESSIONS: u32 = 0;

pub struct HeaderSession {
    range: BlockRange,
}
impl HeaderSession {
    pub fn new(range: BlockRange, _cmd_tx: CmdTx) -> Self {
        unsafe {
            SESSIONS += 1;
            SESSION_RANGE = Some((*range.start(), *range.end()));
        }
        HeaderSession { range }
    }
    pub async fn run(&mut self) -> Result<Served> {
        assert!(
            !self.range.is_empty(),
            "C27: a header session is started for an EMPTY range (amount 0): the real session then re-sends an invalid zero-amount request forever instead of returning"
        );
        Ok(Vec { start: *self.range.start(), len: self.range.len(), _p: std::marker::PhantomData })
    }
}

include!("generated/p2p_c27.rs");

fn verified_range(small: bool) {
    let height: u64 = kani::any();
    kani::assume(height >= 1 && height < i64::MAX as u64);
    let from = ExtendedHeader { height, valid: kani::any() };
    let amount: u64 = kani::any();
    kani::assume((amount <= 1024) == small);
    let p2p = P2p { cmd_tx: CmdTx };
    let res = run_ready(p2p.get_verified_headers_range(&from, amount));
    match res {
        Ok(served) => {
            assert!(from.valid, "C27: an invalid trusted header was accepted");
            assert!(served.len == amount, "C27: did not return exactly the requested number of headers");
            assert!(amount == 0 || served.start == height + 1, "C27: returned headers do not start right above the trusted header");
        }
        Err(_) => {
            // an error is acceptable only for an invalid header or an unrepresentable range
            assert!(!from.valid || amount > u64::MAX - height, "C27: request failed although the network serves every header");
        }
    }
    assert!(unsafe { SESSIONS } <= 1, "C27: more than one session");
    kani::cover!((amount == 0 || !small) && from.valid, "witness: zero amount / large amount");
    kani::cover!((amount > (1u64 << 63) || small) && from.valid, "witness: huge amount");
    kani::cover!((amount == 5 || !small) && from.valid, "witness: ordinary amount");
}

// @verif prop=C27 tier=quick shape="trusted header height free in 1..=i64::MAX-1 (valid or not), amount free in 0..=1024; network serves every requested header" funcs="P2p::get_verified_headers_range"
#[kani::proof]
#[kani::unwind(4)]
fn c27_verified_range_small_amounts() {
    verified_range(true);
}

// @verif prop=C27 tier=quick shape="trusted header height free in 1..=i64::MAX-1 (valid or not), amount free in 1025..=u64::MAX; network serves every requested header" funcs="P2p::get_verified_headers_range"
#[kani::proof]
#[kani::unwind(4)]
fn c27_verified_range_large_amounts() {
    verified_range(false);
}
