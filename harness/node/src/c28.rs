//! C28: the header-ex client accepts only well-formed, validated responses.
//!
//! `decode_and_verify_responses` is sliced verbatim from /repo/node/src/p2p/header_ex/client.rs
//! and the `HeaderRequestExt` / `HeaderResponseExt` impls from utils.rs. A response body is one
//! opaque encoded-header unit carrying a height, a hash id and a free `valid` bit that decides
//! whether `ExtendedHeader::decode_and_validate` accepts it (validation itself is C01/C02).
use crate::hx::header_request::Data;
use crate::hx::*;
use celestia_types::consts::HASH_SIZE;

macro_rules! trace {
    ($($t:tt)*) => {};
}
type Vec<T> = MVec<T>;
macro_rules! vec {
    () => { MVec::new() };
    ($x:expr) => {{ let mut v = MVec::new(); v.push($x); v }};
}

#[derive(Debug, PartialEq)]
pub enum HeaderExError {
    HeaderNotFound,
    InvalidResponse,
    InvalidRequest,
}
async fn yield_now() {}

include!("generated/client_c28.rs");

fn any_response() -> HeaderResponse {
    let mut body: MVec<EncodedHeader> = MVec::new();
    if kani::any() {
        body.push(EncodedHeader { height: kani::any(), hash_id: kani::any(), valid: kani::any() });
    }
    let code: u8 = kani::any();
    kani::assume(code <= 2);
    HeaderResponse { body, status_code: code as i32 }
}

/// what the response at position i decodes to: Some(header) iff status Ok and a valid body
fn decoded(r: &HeaderResponse) -> Option<(u64, u8)> {
    if r.status_code == StatusCode::Ok as i32 {
        if let Some(e) = r.body.get(0) {
            if e.valid {
                return Some((e.height, e.hash_id));
            }
        }
    }
    None
}

fn run<const NR: usize>(request: &HeaderRequest) -> (std::result::Result<Vec<ExtendedHeader>, HeaderExError>, [Option<(u64, u8)>; NR]) {
    let responses: [HeaderResponse; NR] = std::array::from_fn(|_| any_response());
    let dec: [Option<(u64, u8)>; NR] = std::array::from_fn(|i| decoded(&responses[i]));
    let res = run_ready(decode_and_verify_responses(request, &responses[..]));
    std::mem::forget(responses);
    (res, dec)
}

fn height_request<const NR: usize>() {
    let (start, amount): (u64, u64) = kani::any();
    kani::assume(start >= 1 && start <= i64::MAX as u64 && amount >= 1);
    let request = HeaderRequest { amount, data: Some(Data::Origin(start)) };
    assert!(request.is_valid(), "C28: harness builds a valid height request");
    let (res, dec) = run::<NR>(&request);
    if let Ok(hs) = &res {
        assert!(hs.len() >= 1 && hs.len() as u64 <= amount && hs.len() <= NR, "C28 height request: accepted run is empty or longer than requested");
        let i: usize = kani::any();
        kani::assume(i < hs.len());
        assert!(hs[i].height() == start + i as u64, "C28 height request: accepted heights are not start, start+1, ...");
        // every returned header is one of the individually validated responses
        let mut found = false;
        let mut k = 0;
        while k < NR {
            found = found || dec[k] == Some((hs[i].height, hs[i].hash_id));
            k += 1;
        }
        assert!(found, "C28 height request: a returned header was not a validated response");
    }
    // completeness: a full, in-order, valid answer is accepted
    let mut honest = NR as u64 <= amount;
    let mut k = 0;
    while k < NR {
        honest = honest && matches!(dec[k], Some((h, _)) if h == start + k as u64);
        k += 1;
    }
    assert!(!honest || matches!(&res, Ok(hs) if hs.len() == NR), "C28 height request: an honest response was rejected");
    kani::cover!(honest, "witness: honest response");
    kani::cover!(res.is_err(), "witness: rejected response");
    std::mem::forget(res);
}

// @verif prop=C28 tier=quick shape="height request (start 1..=i64::MAX, amount >= 1 free) with 1 response: free status, body absent or one unit with free height/hash/validity" funcs="decode_and_verify_responses,HeaderResponseExt::to_validated_extented_header,HeaderRequestExt::is_valid"
#[kani::proof]
#[kani::unwind(10)]
fn c28_height_request_1_response() {
    height_request::<1>();
}

// @verif prop=C28 tier=quick shape="height request with 2 free responses (any order, duplicates, gaps, invalid ones)" funcs="decode_and_verify_responses,HeaderResponseExt::to_validated_extented_header"
#[kani::proof]
#[kani::unwind(10)]
fn c28_height_request_2_responses() {
    height_request::<2>();
}

// @verif prop=C28 tier=quick shape="height request with 3 free responses (any order, duplicates, gaps, invalid ones)" funcs="decode_and_verify_responses,HeaderResponseExt::to_validated_extented_header"
#[kani::proof]
#[kani::unwind(10)]
fn c28_height_request_3_responses() {
    height_request::<3>();
}

// @verif prop=C28 tier=thorough shape="height request with 4 free responses (any order, duplicates, gaps, invalid ones)" funcs="decode_and_verify_responses,HeaderResponseExt::to_validated_extented_header"
#[kani::proof]
#[kani::unwind(10)]
fn c28_height_request_4_responses() {
    height_request::<4>();
}

fn hash_or_head_request<const NR: usize>(head: bool) {
    let want: u8 = kani::any();
    let request = if head {
        HeaderRequest { amount: 1, data: Some(Data::Origin(0)) }
    } else {
        let mut hash: MVec<u8> = MVec::new();
        let mut i = 0;
        while i < 32 {
            hash.push(want);
            i += 1;
        }
        HeaderRequest { amount: 1, data: Some(Data::Hash(hash)) }
    };
    assert!(request.is_valid(), "C28: harness builds a valid request");
    let (res, dec) = run::<NR>(&request);
    if let Ok(hs) = &res {
        assert!(NR == 1 && hs.len() == 1, "C28 hash/head request: accepted something other than a single header");
        assert!(dec[0] == Some((hs[0].height, hs[0].hash_id)), "C28 hash/head request: returned header is not the validated response");
        assert!(head || hs[0].hash_id == want, "C28 hash request: accepted a header with another hash");
    } else {
        assert!(!(NR == 1 && matches!(dec[0], Some((_, id)) if head || id == want)), "C28 hash/head request: an honest response was rejected");
    }
    kani::cover!(res.is_ok() || NR > 1, "witness: accepted");
    kani::cover!(res.is_err(), "witness: rejected");
    std::mem::forget(res);
}

// @verif prop=C28 tier=quick shape="hash request (32 equal free bytes) with 1 free response" funcs="decode_and_verify_responses,HeaderResponseExt::to_validated_extented_header"
#[kani::proof]
#[kani::unwind(36)]
fn c28_hash_request_1_response() {
    hash_or_head_request::<1>(false);
}

// @verif prop=C28 tier=quick shape="hash request with 2 free responses (must be rejected)" funcs="decode_and_verify_responses"
#[kani::proof]
#[kani::unwind(36)]
fn c28_hash_request_2_responses() {
    hash_or_head_request::<2>(false);
}

// @verif prop=C28 tier=quick shape="head request with 1 free response" funcs="decode_and_verify_responses,HeaderResponseExt::to_validated_extented_header"
#[kani::proof]
#[kani::unwind(10)]
fn c28_head_request_1_response() {
    hash_or_head_request::<1>(true);
}

// @verif prop=C28 tier=quick shape="head request with 2 free responses (must be rejected)" funcs="decode_and_verify_responses"
#[kani::proof]
#[kani::unwind(10)]
fn c28_head_request_2_responses() {
    hash_or_head_request::<2>(true);
}
