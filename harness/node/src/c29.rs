//! C29: the header-ex server answers every request correctly without crashing.
//!
//! Sliced verbatim from /repo/node/src/p2p/header_ex/server.rs: the constant, the handler
//! struct, the `ResponseSender` trait, the whole `impl HeaderExServerHandler` block and
//! `parse_request`; from utils.rs: the three extension traits and their impls. They are
//! compiled against the models in `crate::hx` (store = arbitrary subset of a 4-height window at
//! an arbitrary base, immediately-ready futures, in-order `FuturesUnordered`).
use std::fmt::{Debug, Display};
use std::sync::Arc;
use std::task::{Context, Poll};

use crate::hx::header_request::Data;
use crate::hx::*;
use celestia_types::consts::HASH_SIZE;

macro_rules! trace {
    ($($t:tt)*) => {};
}

// `Vec` / `vec!` as named by the sliced code are the array-backed model (hx::MVec).
type Vec<T> = MVec<T>;
macro_rules! vec {
    () => { MVec::new() };
    ($x:expr) => {{ let mut v = MVec::new(); v.push($x); v }};
}

type ResponseType = Vec<HeaderResponse>;

pub struct ReqRespBehaviour;
impl ResponseSender for ReqRespBehaviour {
    type Channel = u8;
    fn send_response(&mut self, _channel: u8, _response: ResponseType) {}
}

/// `HeaderExError` as used by the sliced `HeaderResponseExt` impl (client side; unused here).
#[derive(Debug)]
pub enum HeaderExError {
    HeaderNotFound,
    InvalidResponse,
    InvalidRequest,
}

include!("generated/server_c29.rs");

/// Records the single response the server sends.
struct Recorder {
    sent: Option<(u8, ResponseType)>,
    count: u32,
}
impl ResponseSender for Recorder {
    type Channel = u8;
    fn send_response(&mut self, channel: u8, response: ResponseType) {
        self.count += 1;
        self.sent = Some((channel, response));
    }
}

fn body_height(r: &HeaderResponse) -> Option<u64> {
    r.body.get(0).map(|e| e.height)
}

#[derive(Clone, Copy, PartialEq)]
enum Mode {
    Any,
}

/// One request through the real handler: `on_request_received`, then (if it did not answer
/// directly) one `poll`. Exactly one response list must have been sent, on the request's channel.
fn serve(_mode: Mode, store: WindowStore, request: HeaderRequest) -> (Arc<WindowStore>, ResponseType) {
    let store = Arc::new(store);
    let mut handler: HeaderExServerHandler<WindowStore, Recorder> = HeaderExServerHandler::new(store.clone());
    let mut rec = Recorder { sent: None, count: 0 };
    handler.on_request_received(PeerId(1), 7u32, request, &mut rec, 42u8);
    assert!(!(rec.count > 0 && !handler.tasks.is_empty()), "C29: request answered directly AND queued");
    if rec.count == 0 {
        let waker = noop_waker();
        let mut cx = Context::from_waker(&waker);
        let p = handler.poll(&mut cx, &mut rec);
        assert!(p.is_ready(), "C29: the server did not answer");
    }
    assert!(rec.count == 1, "C29: the server must send exactly one response list per request");
    assert!(handler.tasks.is_empty(), "C29: a task is left over after the answer");
    let (ch, resp) = rec.sent.take().unwrap();
    assert!(ch == 42, "C29: response sent on the wrong channel");
    std::mem::forget(handler);
    (store, resp)
}

fn height_request(mode: Mode) {
    let store = WindowStore::any();
    let (origin, amount): (u64, u64) = kani::any();
    kani::assume(origin >= 1);
    let req = HeaderRequest { amount, data: Some(Data::Origin(origin)) };
    // reference: longest run of stored heights starting at origin, capped at min(amount, 512)
    let cap = if amount < 512 { amount } else { 512 };
    let mut run = 0u64;
    let mut k = 0u64;
    while k < W + 1 {
        if run == k && k < cap && origin <= u64::MAX - k && store.has(origin + k) {
            run += 1;
        }
        k += 1;
    }
    let (store, resp) = serve(mode, store, req);
    if amount == 0 {
        assert!(resp.len() == 1 && resp[0].status_code == i32::from(StatusCode::Invalid), "C29: invalid (zero amount) request must get a single invalid response");
    } else if run == 0 {
        assert!(resp.len() == 1 && resp[0].status_code == i32::from(StatusCode::NotFound), "C29: nothing stored at origin must give a single not-found");
    } else {
        assert!(resp.len() as u64 == run, "C29: response is not the longest stored run capped at min(amount, 512)");
        let mut i = 0usize;
        while i < resp.len() {
            assert!(resp[i].status_code == i32::from(StatusCode::Ok), "C29: run element not Ok");
            assert!(body_height(&resp[i]) == Some(origin + i as u64), "C29: run element is not the header at origin+i");
            i += 1;
        }
    }
    kani::cover!(run >= 2, "witness: multi-header run");
    kani::cover!(run >= 1 && amount > 512, "witness: amount above the cap");
    kani::cover!(amount >= 1 && run == 0, "witness: not found");
    kani::cover!(origin > u64::MAX - 2, "witness: origin at the top of the u64 range");
    kani::cover!(amount == 0, "witness: zero amount");
    std::mem::forget(resp);
}

// @verif prop=C29 tier=quick shape="height request: origin and amount free u64 (incl. origin near u64::MAX); store = any subset of a 4-height window at a free base" funcs="HeaderExServerHandler::{on_request_received,handle_request_by_height,poll},parse_request,HeaderRequestExt::is_valid,ExtendedHeaderExt::to_header_response"
#[kani::proof]
#[kani::unwind(36)]
fn c29_height_request() {
    height_request(Mode::Any);
}

fn head_request(mode: Mode) {
    let store = WindowStore::any();
    let amount: u64 = kani::any();
    let req = HeaderRequest { amount, data: Some(Data::Origin(0)) };
    let (store, resp) = serve(mode, store, req);
    assert!(resp.len() == 1, "C29: head request must get exactly one response");
    if amount != 1 {
        assert!(resp[0].status_code == i32::from(StatusCode::Invalid), "C29: head request with amount != 1 is invalid");
    } else {
        match store.head() {
            Some(h) => assert!(resp[0].status_code == i32::from(StatusCode::Ok) && body_height(&resp[0]) == Some(h), "C29: head request must return the stored head"),
            None => assert!(resp[0].status_code == i32::from(StatusCode::NotFound), "C29: head request on empty store must be not-found"),
        }
    }
    kani::cover!(amount == 1 && store.head().is_some(), "witness: head served");
    kani::cover!(amount == 1 && store.head().is_none(), "witness: empty store");
    kani::cover!(amount > 1, "witness: invalid head request");
    std::mem::forget(resp);
}

// @verif prop=C29 tier=quick shape="head request (origin 0), amount free u64; store = any subset of a 4-height window" funcs="HeaderExServerHandler::{on_request_received,handle_request_current_head,poll},HeaderRequestExt::is_valid"
#[kani::proof]
#[kani::unwind(36)]
fn c29_head_request() {
    head_request(Mode::Any);
}

fn hash_request(mode: Mode) {
    let store = WindowStore::any();
    let amount: u64 = kani::any();
    let len: usize = kani::any();
    kani::assume(len <= 33);
    let bytes: [u8; 33] = kani::any();
    let mut hash: MVec<u8> = MVec::new();
    let mut i = 0;
    while i < 33 {
        if i < len {
            hash.push(bytes[i]);
        }
        i += 1;
    }
    let mut same = len == 32;
    let mut i = 0;
    while i < 32 {
        same = same && bytes[i] == store.wanted_hash[i];
        i += 1;
    }
    let req = HeaderRequest { amount, data: Some(Data::Hash(hash)) };
    let (store, resp) = serve(mode, store, req);
    assert!(resp.len() == 1, "C29: hash request must get exactly one response");
    if amount != 1 || len != 32 {
        assert!(resp[0].status_code == i32::from(StatusCode::Invalid), "C29: malformed hash request must get an invalid response");
    } else if same && store.hash_hit != 0 {
        assert!(resp[0].status_code == i32::from(StatusCode::Ok) && body_height(&resp[0]) == Some(store.hash_hit), "C29: hash request must return that header");
    } else {
        assert!(resp[0].status_code == i32::from(StatusCode::NotFound), "C29: unknown hash must be not-found");
    }
    kani::cover!(amount == 1 && same && store.hash_hit != 0, "witness: hash served");
    kani::cover!(amount == 1 && len == 32 && !same, "witness: unknown hash");
    kani::cover!(len == 31, "witness: short hash");
    kani::cover!(len == 32 && amount == 2, "witness: amount 2");
    std::mem::forget(resp);
}

// @verif prop=C29 tier=quick shape="hash request: hash of free length 0..=33 and free bytes, amount free u64; store maps one free hash to a stored height or to nothing" funcs="HeaderExServerHandler::{on_request_received,handle_request_by_hash,poll},HeaderRequestExt::is_valid"
#[kani::proof]
#[kani::unwind(36)]
fn c29_hash_request() {
    hash_request(Mode::Any);
}

// @verif prop=C29 tier=quick shape="request without data, amount free u64" funcs="HeaderExServerHandler::{on_request_received,handle_invalid_request},parse_request"
#[kani::proof]
#[kani::unwind(36)]
fn c29_no_data_request() {
    let store = WindowStore::any();
    let amount: u64 = kani::any();
    let req = HeaderRequest { amount, data: None };
    let (_store, resp) = serve(Mode::Any, store, req);
    assert!(resp.len() == 1 && resp[0].status_code == i32::from(StatusCode::Invalid), "C29: request without data must get a single invalid response");
    kani::cover!(amount == 1, "witness: reached");
    std::mem::forget(resp);
}
