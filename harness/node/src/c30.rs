//! C30 / C16 (header-ex framing): `parse_delimiter`, `parse_header_request` and
//! `parse_header_response` are sliced verbatim from /repo/node/src/p2p/header_ex.rs and run with
//! the REAL prost decoder and the REAL prost-generated `HeaderRequest` / `HeaderResponse` types on
//! byte buffers whose length and content are symbolic.
// The protobuf MESSAGE decoder (prost-generated `decode`, third-party) is out of reach: with the
// real `HeaderRequest::decode` both SAT back ends time out (600 s) on a 12-byte buffer. It is
// replaced by an opaque decoder that accepts or rejects any frame body nondeterministically and
// remembers the body it was given; the length-delimiter decoding (`prost::decode_length_delimiter`)
// and all of lumina's framing arithmetic are real.
static mut LAST_BODY: (usize, usize) = (0, 0); // (address offset within the buffer is not tracked) length, calls

pub struct HeaderRequest {
    pub body_len: usize,
}
pub struct HeaderResponse {
    pub body_len: usize,
}
macro_rules! opaque_decode {
    ($t:ident) => {
        impl $t {
            pub fn decode(buf: &[u8]) -> Result<Self, ()> {
                unsafe {
                    LAST_BODY = (buf.len(), LAST_BODY.1 + 1);
                }
                if kani::any() { Ok($t { body_len: buf.len() }) } else { Err(()) }
            }
        }
    };
}
opaque_decode!(HeaderRequest);
opaque_decode!(HeaderResponse);

macro_rules! debug {
    ($($t:tt)*) => {};
}

include!("generated/header_ex_c30.rs");

const MAXBUF: usize = 12;

fn any_buf() -> ([u8; MAXBUF], usize) {
    let b: [u8; MAXBUF] = kani::any();
    let n: usize = kani::any();
    kani::assume(n <= MAXBUF);
    (b, n)
}

/// Reference LEB128 decoding of the length prefix: Some((value, bytes used)) for a well-formed
/// varint that fits in 64 bits and is complete within the first `n` bytes.
fn ref_varint(b: &[u8; MAXBUF], n: usize) -> Option<(u64, usize)> {
    let mut v: u64 = 0;
    let mut i = 0;
    while i < 10 {
        if i >= n {
            return None;
        }
        let byte = b[i];
        if i == 9 && byte > 1 {
            return None; // would overflow 64 bits
        }
        v |= ((byte & 0x7f) as u64) << (7 * i);
        if byte & 0x80 == 0 {
            return Some((v, i + 1));
        }
        i += 1;
    }
    None
}

// @verif prop=C30,C16 tier=quick shape="any byte buffer of length 0..=12 (incl. 10-byte length prefixes up to 2^64-1); message decoder opaque" funcs="parse_header_request,parse_delimiter,prost::decode_length_delimiter"
#[kani::proof]
#[kani::unwind(14)]
fn c30_request_framing() {
    let (b, n) = any_buf();
    let r = parse_header_request(&b[..n]);
    // a request is produced only from a complete frame: well-formed length prefix and that many bytes
    match ref_varint(&b, n) {
        Some((len, used)) if (len as u128) <= (n - used) as u128 => {
            if let Some(m) = &r {
                assert!(m.body_len == len as usize, "C30 request: decoded a body of the wrong length");
            }
        }
        _ => assert!(r.is_none(), "C30 request: accepted a truncated or malformed frame"),
    }
    kani::cover!(r.is_some(), "witness: some buffer parses");
    kani::cover!(r.is_none() && n >= 10, "witness: long buffer rejected");
    std::mem::forget(r);
}

// @verif prop=C30,C16 tier=quick shape="any byte buffer of length 0..=12 (incl. 10-byte length prefixes up to 2^64-1); message decoder opaque" funcs="parse_header_response,parse_delimiter,prost::decode_length_delimiter"
#[kani::proof]
#[kani::unwind(14)]
fn c30_response_framing() {
    let (b, n) = any_buf();
    let r = parse_header_response(&b[..n]);
    match ref_varint(&b, n) {
        Some((len, used)) if (len as u128) <= (n - used) as u128 => {
            if let Some((m, rest)) = &r {
                assert!(m.body_len == len as usize, "C30 response: decoded a body of the wrong length");
                assert!(rest.len() == n - used - len as usize, "C30 response: the remainder is not what follows the frame");
            }
        }
        _ => assert!(r.is_none(), "C30 response: accepted a truncated or malformed frame"),
    }
    kani::cover!(r.is_some(), "witness: some buffer parses");
    kani::cover!(matches!(&r, Some((_, rest)) if rest.len() >= 3), "witness: a frame followed by more bytes");
    std::mem::forget(r);
}
