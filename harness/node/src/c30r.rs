//! C30 (chunked reading): `read_up_to`, `HeaderCodec::read_request` and `read_response` are sliced
//! verbatim from /repo/node/src/p2p/header_ex.rs (together with every other top-level free fn of
//! that file and the size/time limits) and run against a stream that delivers its bytes in
//! solver-chosen chunks, a clock that returns solver-chosen non-decreasing instants and a
//! `timeout` that may fire at any await.
//!
//! All model futures complete at their first poll, so each sliced `async fn` is driven by a single
//! `poll` with a no-op waker (asserted `Ready`): the interleaving freedom of the real I/O is carried
//! by the solver-chosen chunk sizes, clock readings and timeout firings instead.
use std::future::Future;
use std::pin::pin;
use std::task::{Context, Poll, Waker};
use std::time::Duration;

// ---- environment models -------------------------------------------------------------------------
pub mod io {
    /// `std::io::Error` carries a boxed payload whose drop glue is expensive for CBMC; the sliced
    /// code only constructs (`other`) and propagates it.
    pub struct Error(pub u8);
    impl Error {
        pub fn other<E>(_e: E) -> Error {
            Error(0)
        }
    }
    pub type Result<T> = core::result::Result<T, Error>;
}

pub struct StreamProtocol(u8);
#[derive(Clone, Copy, Default)]
pub struct HeaderCodec(u8);

/// The opaque message decoder accepts or rejects every frame body by ONE solver-chosen verdict per
/// harness run (so that two parses of the same bytes agree) and remembers the body length.
static mut ACCEPT: bool = false;
pub struct HeaderRequest {
    pub body_len: usize,
}
pub struct HeaderResponse {
    pub body_len: usize,
}
macro_rules! opaque_decode {
    ($t:ident) => {
        impl $t {
            pub fn decode(buf: &[u8]) -> Result<Self, ()> {
                if unsafe { ACCEPT } { Ok($t { body_len: buf.len() }) } else { Err(()) }
            }
        }
    };
}
opaque_decode!(HeaderRequest);
opaque_decode!(HeaderResponse);

macro_rules! debug {
    ($($t:tt)*) => {};
}

/// `futures::AsyncRead` + `AsyncReadExt::read` folded into one trait: the sliced code only calls
/// `io.read(&mut buf[..]).await`.
pub trait AsyncRead {
    fn read(&mut self, buf: &mut [u8]) -> impl Future<Output = io::Result<usize>>;
}

const STREAM: usize = 8;
const MAX_READS: usize = 2;

/// A peer's byte stream: `len` bytes of `data`, handed out in solver-chosen chunks of at least one
/// byte (a read returns 0 only at end of stream, as `AsyncRead` specifies), optionally failing.
pub struct ChunkedStream {
    data: [u8; STREAM],
    len: usize,
    pos: usize,
    reads: usize,
    first_chunk: usize,
    may_fail: bool,
}
impl AsyncRead for ChunkedStream {
    async fn read(&mut self, buf: &mut [u8]) -> io::Result<usize> {
        if self.may_fail && kani::any() {
            return Err(io::Error(1));
        }
        let remaining = self.len - self.pos;
        let room = if buf.len() < remaining { buf.len() } else { remaining };
        if room == 0 {
            return Ok(0);
        }
        let k: usize = kani::any();
        kani::assume(k >= 1 && k <= room);
        // stated bound: at most MAX_READS data-carrying reads; the last one delivers all it can
        kani::assume(self.reads + 1 < MAX_READS || k == room);
        // byte loop (<= STREAM iterations): a memcpy of solver-chosen length exhausts CBMC's memory
        let mut j = 0;
        while j < k {
            buf[j] = self.data[self.pos + j];
            j += 1;
        }
        if self.reads == 0 {
            self.first_chunk = k;
        }
        self.pos += k;
        self.reads += 1;
        Ok(k)
    }
}

/// `lumina_utils::time::Instant`: `elapsed` returns solver-chosen, non-decreasing durations
/// (kept as scalars: CBMC 6.11 aborts on struct-valued statics, "l2_rename_rvalues").
static mut CLOCK_S: u64 = 0;
static mut CLOCK_N: u32 = 0;
static mut TIMEOUTS_ALLOWED: bool = false;
static mut TIMED_OUT: bool = false;
static mut TIME_LIMIT_S: u64 = u64::MAX;
pub struct Instant(u8);
impl Instant {
    pub fn now() -> Instant {
        Instant(0)
    }
    pub fn elapsed(&self) -> Duration {
        unsafe {
            if TIMEOUTS_ALLOWED {
                let secs: u64 = kani::any();
                let nanos: u32 = kani::any();
                kani::assume(nanos < 1_000_000_000);
                kani::assume(secs > CLOCK_S || (secs == CLOCK_S && nanos >= CLOCK_N));
                CLOCK_S = secs;
                CLOCK_N = nanos;
                if secs > TIME_LIMIT_S || (secs == TIME_LIMIT_S && nanos > 0) {
                    TIMED_OUT = true;
                }
            }
            Duration::new(CLOCK_S, CLOCK_N)
        }
    }
}
pub struct Elapsed(u8);
/// `lumina_utils::time::timeout`: either the limit fires before the future is polled, or the
/// future's result is passed through.
pub async fn timeout<F: Future>(_limit: Duration, fut: F) -> Result<F::Output, Elapsed> {
    unsafe {
        if TIMEOUTS_ALLOWED && kani::any() {
            TIMED_OUT = true;
            return Err(Elapsed(0));
        }
    }
    Ok(fut.await)
}

/// `Vec<u8>` as the sliced code uses it (`vec![0u8; n]`, `len`, `&mut buf[a..]`, `truncate`, deref to
/// a slice): a fixed array plus a length. A heap `Vec` of solver-chosen size with solver-chosen
/// sub-slice copies exhausts CBMC's memory (measured: > 14 GB for a 12-byte stream).
const CAP: usize = 16;
pub struct Vec<T> {
    a: [u8; CAP],
    len: usize,
    _t: core::marker::PhantomData<T>,
}
impl Vec<u8> {
    pub fn filled(x: u8, n: usize) -> Self {
        assert!(n <= CAP, "model Vec: capacity");
        Vec { a: [x; CAP], len: n, _t: core::marker::PhantomData }
    }
    pub fn truncate(&mut self, n: usize) {
        if n < self.len {
            self.len = n;
        }
    }
}
impl core::ops::Deref for Vec<u8> {
    type Target = [u8];
    fn deref(&self) -> &[u8] {
        &self.a[..self.len]
    }
}
impl core::ops::DerefMut for Vec<u8> {
    fn deref_mut(&mut self) -> &mut [u8] {
        &mut self.a[..self.len]
    }
}
macro_rules! vec {
    ($x:expr; $n:expr) => {
        Vec::<u8>::filled($x, $n)
    };
}

fn run<F: Future>(fut: F) -> F::Output {
    let mut fut = pin!(fut);
    let mut cx = Context::from_waker(Waker::noop());
    match fut.as_mut().poll(&mut cx) {
        Poll::Ready(v) => v,
        Poll::Pending => panic!("a model future returned Pending"),
    }
}

include!("generated/header_ex_c30_read.rs");

fn any_stream(max: usize, may_fail: bool) -> ChunkedStream {
    let data: [u8; STREAM] = kani::any();
    let len: usize = kani::any();
    kani::assume(len <= max);
    ChunkedStream { data, len, pos: 0, reads: 0, first_chunk: 0, may_fail }
}

// @verif prop=C30 tier=thorough shape="any stream of 0..=8 bytes delivered in any chunking of <= 2 data reads, size limit 16, any clock readings, timeout firing at any await, read errors at any read" funcs="read_up_to"
#[kani::proof]
#[kani::unwind(10)]
fn c30_read_up_to_prefix() {
    unsafe {
        TIMEOUTS_ALLOWED = true;
    }
    let mut s = any_stream(STREAM, true);
    let limit: usize = 16;
    let secs: u64 = kani::any();
    let tl = Duration::from_secs(secs);
    unsafe {
        TIME_LIMIT_S = secs;
    }
    let r = run(read_up_to(&mut s, limit, tl));
    match &r {
        Ok(v) => {
            // what is returned is exactly the bytes delivered so far, in order, never beyond the limit
            assert!(v.len() == s.pos, "C30 read_up_to: returned length differs from the bytes delivered");
            assert!(v.len() <= limit, "C30 read_up_to: size limit exceeded");
            let i: usize = kani::any();
            kani::assume(i < v.len());
            assert!(v[i] == s.data[i], "C30 read_up_to: returned bytes are not the stream's prefix");
            // reading stops early only for a stated reason: end of stream, full buffer, time limit
            assert!(
                s.pos == s.len || v.len() == limit || unsafe { TIMED_OUT },
                "C30 read_up_to: stopped before end of stream without limit or timeout"
            );
        }
        Err(_) => {}
    }
    kani::cover!(matches!(&r, Ok(v) if v.len() >= 3 && s.reads >= 2), "witness: two chunks assembled");
    kani::cover!(matches!(&r, Ok(v) if v.len() < s.len && v.len() < limit), "witness: cut short by the time limit");
    kani::cover!(r.is_err(), "witness: read error propagated");
    std::mem::forget(r);
}

