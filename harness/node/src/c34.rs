//! C34: data sampling respects concurrency limits and recency order.
//!
//! `Worker::schedule_next_sample_block`, `Worker::update_queue`, `Worker::in_sampling_window`,
//! `Worker::on_want_to_prune` and `PRUNER_THRESHOLD` are sliced verbatim from
//! /repo/node/src/daser.rs. One scheduling step from an arbitrary sampler state over heights
//! 1..=12. The sampling future that the step creates is NOT run (its body is compiled, then the
//! future is dropped): what is decided is which block is started and when, not the retrieval.
use crate::models::bitranges::{BlockRanges, MAXH};

type Result<T, E = DaserError> = std::result::Result<T, E>;
#[derive(Debug)]
pub enum StoreError {
    NotFound,
    Other,
}
#[derive(Debug)]
pub enum P2pError {
    RequestTimedOut,
    Other,
}
#[derive(Debug)]
pub enum DaserError {
    Store(StoreError),
    P2p(P2pError),
    Cid,
}
impl From<StoreError> for DaserError {
    fn from(e: StoreError) -> Self {
        DaserError::Store(e)
    }
}
impl From<P2pError> for DaserError {
    fn from(e: P2pError) -> Self {
        DaserError::P2p(e)
    }
}
pub struct CidError;
impl From<CidError> for DaserError {
    fn from(_: CidError) -> Self {
        DaserError::Cid
    }
}

// ---- time ---------------------------------------------------------------------------------------
#[derive(Clone, Copy, PartialEq, PartialOrd, Debug)]
pub struct Time(pub u64);
#[derive(Clone, Copy, PartialEq, PartialOrd, Debug)]
pub struct Duration(pub u64);
static mut NOW: u64 = 0;
impl Time {
    pub fn now() -> Time {
        Time(unsafe { NOW })
    }
    pub fn duration_since(self, earlier: Time) -> std::result::Result<Duration, ()> {
        if self.0 >= earlier.0 { Ok(Duration(self.0 - earlier.0)) } else { Err(()) }
    }
}
pub struct Instant;
impl Instant {
    pub fn now() -> Instant {
        Instant
    }
    pub fn elapsed(&self) -> Duration {
        Duration(0)
    }
}
fn calc_timeout(_header_time: Time, _now: Time, sampling_window: Duration) -> Duration {
    sampling_window
}

// ---- store / p2p / events -----------------------------------------------------------------------
#[derive(Clone, Copy)]
pub struct Header {
    height: u64,
    time: Time,
    width: u16,
}
impl Header {
    pub fn height(&self) -> u64 {
        self.height
    }
    pub fn time(&self) -> Time {
        self.time
    }
    pub fn square_width(&self) -> u16 {
        self.width
    }
}
pub type Cid = u64;
fn sample_cid(row: u16, col: u16, height: u64) -> std::result::Result<Cid, CidError> {
    Ok(((row as u64) << 48) | ((col as u64) << 32) | (height & 0xffff_ffff))
}
/// the shares chosen for a block: a fixed single coordinate here -- the random choice
/// (`random_indexes`, an RNG rejection loop over a HashSet) is C33's subject and out of reach
fn random_indexes(_square_width: u16, _max_samples_needed: usize) -> std::vec::Vec<(u16, u16)> {
    let mut v = std::vec::Vec::with_capacity(1);
    v.push((0, 0));
    v
}
type Vec<T> = std::vec::Vec<T>;

pub struct ModelStore {
    stored: BlockRanges,
    sampled: BlockRanges,
    times: [u64; (MAXH + 2) as usize],
    metadata_for: std::cell::Cell<Option<u64>>,
    metadata_calls: std::cell::Cell<u32>,
}
impl ModelStore {
    async fn get_by_height(&self, h: u64) -> std::result::Result<Header, StoreError> {
        if self.stored.contains(h) {
            let mut i = 0;
            while i <= MAXH {
                if i == h {
                    return Ok(Header { height: h, time: Time(self.times[i as usize]), width: 4 });
                }
                i += 1;
            }
        }
        Err(StoreError::NotFound)
    }
    async fn get_stored_header_ranges(&self) -> std::result::Result<BlockRanges, StoreError> {
        Ok(self.stored)
    }
    async fn get_sampled_ranges(&self) -> std::result::Result<BlockRanges, StoreError> {
        Ok(self.sampled)
    }
    async fn update_sampling_metadata(&self, height: u64, cids: Vec<Cid>) -> std::result::Result<(), StoreError> {
        self.metadata_for.set(Some(height));
        self.metadata_calls.set(self.metadata_calls.get() + 1);
        std::mem::forget(cids);
        Ok(())
    }
}
#[derive(Clone)]
pub struct P2p;
impl P2p {
    pub async fn get_sample(&self, _row: u16, _col: u16, _height: u64, _timeout: Option<Duration>) -> std::result::Result<(), P2pError> {
        Ok(())
    }
}
pub enum NodeEvent {
    SamplingStarted { height: u64, square_width: u16, shares: Vec<(u16, u16)> },
    ShareSamplingResult { height: u64, square_width: u16, row: u16, column: u16, timed_out: bool },
    SamplingResult { height: u64, timed_out: bool, took: Duration },
}
#[derive(Clone)]
pub struct EventPublisher;
impl EventPublisher {
    pub fn send(&self, e: NodeEvent) {
        std::mem::forget(e);
    }
}

// ---- futures: created, compiled, never run ----------------------------------------------------------
pub struct BoxFuture<'a, T> {
    _p: std::marker::PhantomData<&'a T>,
}
pub trait FutureExt: std::future::Future + Sized {
    fn boxed<'a>(self) -> BoxFuture<'a, Self::Output>
    where
        Self: 'a,
    {
        std::mem::forget(self);
        BoxFuture { _p: std::marker::PhantomData }
    }
}
impl<F: std::future::Future> FutureExt for F {}
pub struct FuturesUnordered<F> {
    n: usize,
    _p: std::marker::PhantomData<F>,
}
impl<F> FuturesUnordered<F> {
    pub fn len(&self) -> usize {
        self.n
    }
    pub fn push(&mut self, f: F) {
        std::mem::forget(f);
        self.n += 1;
    }
    /// only named inside the never-run sampling future
    pub async fn next(&mut self) -> Option<<F as std::future::Future>::Output>
    where
        F: std::future::Future,
    {
        None
    }
}
impl<F> FromIterator<F> for FuturesUnordered<F> {
    fn from_iter<I: IntoIterator<Item = F>>(it: I) -> Self {
        let mut n = 0;
        for f in it {
            std::mem::forget(f);
            n += 1;
        }
        FuturesUnordered { n, _p: std::marker::PhantomData }
    }
}

pub struct Worker {
    event_pub: EventPublisher,
    p2p: P2p,
    store: ModelStore,
    max_samples_needed: usize,
    sampling_futs: FuturesUnordered<BoxFuture<'static, Result<(u64, bool)>>>,
    queue: BlockRanges,
    timed_out: BlockRanges,
    ongoing: BlockRanges,
    will_be_pruned: BlockRanges,
    sampling_window: Duration,
    concurrency_limit: usize,
    additional_headersub_concurency: usize,
    head_height: Option<u64>,
    highest_prunable_height: Option<u64>,
    num_of_prunable_blocks: u64,
}

include!("generated/daser_c34.rs");

fn any_worker() -> (Worker, u64, u64) {
    let stored = BlockRanges::any();
    let sampled = BlockRanges::any();
    let queue = BlockRanges::any();
    let timed_out = BlockRanges::any();
    let ongoing = BlockRanges::any();
    let wbp = BlockRanges::any();
    kani::assume(sampled.0 & !stored.0 == 0);
    // the queue never holds a height that is sampled, being sampled, timed out or promised to the pruner
    kani::assume(queue.0 & (sampled.0 | ongoing.0 | timed_out.0 | wbp.0) == 0);
    let times: [u64; (MAXH + 2) as usize] = kani::any();
    let mut i = 1;
    while i <= MAXH + 1 {
        kani::assume(times[i as usize - 1] < times[i as usize]);
        i += 1;
    }
    let now: u64 = kani::any();
    let window: u64 = kani::any();
    unsafe { NOW = now };
    let in_progress = ongoing.len() as usize;
    let limit: usize = kani::any();
    let extra: usize = kani::any();
    kani::assume(limit <= 8 && extra <= 8);
    let w = Worker {
        event_pub: EventPublisher,
        p2p: P2p,
        store: ModelStore { stored, sampled, times, metadata_for: std::cell::Cell::new(None), metadata_calls: std::cell::Cell::new(0) },
        max_samples_needed: 16,
        sampling_futs: FuturesUnordered { n: in_progress, _p: std::marker::PhantomData },
        queue,
        timed_out,
        ongoing,
        will_be_pruned: wbp,
        sampling_window: Duration(window),
        concurrency_limit: limit,
        additional_headersub_concurency: extra,
        head_height: if kani::any() { Some(kani::any()) } else { None },
        highest_prunable_height: if kani::any() { Some(kani::any()) } else { None },
        num_of_prunable_blocks: kani::any(),
    };
    (w, now, window)
}

// @verif prop=C34 tier=quick shape="any sampler state over heights 1..=12 (stored/sampled/queue/timed-out/ongoing/promised subsets, queue disjoint from the excluded sets), free increasing header times, free clock and window, limits 0..=8, free cached head / prunable height / prunable count" funcs="Worker::schedule_next_sample_block,Worker::update_queue,Worker::in_sampling_window"
#[kani::proof]
#[kani::unwind(15)]
fn c34_schedule_next_sample_block_step() {
    let (mut w, now, window) = any_worker();
    let before_ongoing = w.ongoing;
    let before_queue = w.queue;
    let before_futs = w.sampling_futs.len();
    let (stored, sampled, timed_out, wbp) = (w.store.stored, w.store.sampled, w.timed_out, w.will_be_pruned);
    let hp = w.highest_prunable_height.unwrap_or(0);
    let backlog = w.num_of_prunable_blocks >= 512;
    let res = crate::hx::run_ready(w.schedule_next_sample_block());
    match res {
        Ok(true) => {
            let started = BlockRanges(w.ongoing.0 & !before_ongoing.0);
            assert!(started.len() == 1 && w.sampling_futs.len() == before_futs + 1, "C34: a step must start exactly one block");
            let h = started.head().unwrap();
            assert!(stored.contains(h), "C34: started a block that is not stored");
            assert!(!sampled.contains(h) && !before_ongoing.contains(h) && !wbp.contains(h) && !timed_out.contains(h), "C34: started a block that is sampled, in progress, promised to the pruner or timed out");
            let newest = w.head_height == Some(h);
            let limit = w.concurrency_limit + if newest { w.additional_headersub_concurency } else { 0 };
            assert!(before_futs < limit, "C34: started a block although the concurrency limit was reached");
            assert!(!(h <= hp && backlog), "C34: started a prunable block while the pruner reports a backlog of at least 512");
            let t = w.store.times[h as usize];
            assert!(now < t || now - t <= window, "C34: started a block older than the sampling window");
            // recency: no stored height above it was waiting in the queue
            let g: u64 = kani::any();
            kani::assume(g > h && g <= MAXH);
            assert!(!(before_queue.contains(g) && stored.contains(g)), "C34: a higher stored height was queued but a lower one was started");
            // the CIDs of the chosen shares are recorded before the retrieval is queued
            assert!(w.store.metadata_for.get() == Some(h) && w.store.metadata_calls.get() == 1, "C34/C33: sampling metadata not recorded for the started block");
            assert!(!w.queue.contains(h), "C34: the started block is still queued");
        }
        Ok(false) => {
            assert!(w.ongoing == before_ongoing && w.sampling_futs.len() == before_futs, "C34: nothing was started but the in-progress set changed");
            assert!(w.store.metadata_calls.get() == 0, "C34: metadata written although nothing was started");
        }
        Err(_) => assert!(false, "C34: scheduling failed on a consistent state"),
    }
    kani::cover!(matches!(res, Ok(true)) && before_futs >= 2, "witness: started while others are in progress");
    kani::cover!(matches!(res, Ok(false)) && before_queue.0 != 0, "witness: paused with a non-empty queue");
    kani::cover!(matches!(res, Ok(true)) && !stored.contains(before_queue.head().unwrap_or(0)) && before_queue.0 != 0, "witness: started after repopulating the queue");
    std::mem::forget(w);
}

// @verif prop=C34,C35 tier=quick shape="any sampler state over heights 1..=12; want_to_prune for a free height" funcs="Worker::on_want_to_prune"
#[kani::proof]
#[kani::unwind(15)]
fn c34_want_to_prune_contract() {
    let (mut w, _now, _window) = any_worker();
    let h: u64 = kani::any();
    kani::assume(h >= 1 && h <= MAXH);
    let in_progress = w.ongoing.contains(h);
    let ok = crate::hx::run_ready(w.on_want_to_prune(h));
    // the contract the pruner relies on (C35): never allowed while sampling of h is in progress;
    // once allowed, h is neither queued nor can it be queued again
    assert!(ok == !in_progress, "C34/C35: want_to_prune must be refused exactly while the block is being sampled");
    if ok {
        assert!(!w.queue.contains(h) && w.will_be_pruned.contains(h), "C34: a block promised to the pruner is still schedulable");
    }
    kani::cover!(ok, "witness: allowed");
    kani::cover!(!ok, "witness: refused");
    std::mem::forget(w);
}
