//! C35: the pruner only removes blocks that are safe to remove.
//!
//! `Worker::get_next_prunable_batch` and `MAX_PRUNABLE_BATCH_SIZE` are sliced verbatim from
//! /repo/node/src/pruner.rs. Assume/guarantee composition: `update_cached_data` is replaced by a
//! model that leaves in the cache ANY pair of window edges satisfying the contract C36 decides for
//! the real search (a height whose time is not newer than the respective cutoff, or nothing);
//! stale values are covered because a value correct for an earlier cutoff satisfies it too.
use crate::models::bitranges::{BlockRanges, MAXH};

pub type Time = u64;
type Result<T, E = PrunerError> = std::result::Result<T, E>;
#[derive(Debug)]
pub enum PrunerError {
    Store,
    Daser,
}

pub struct ModelStore {
    stored: BlockRanges,
    pruned: BlockRanges,
    sampled: BlockRanges,
}
impl ModelStore {
    async fn get_stored_header_ranges(&self) -> Result<BlockRanges> {
        Ok(self.stored)
    }
    async fn get_pruned_ranges(&self) -> Result<BlockRanges> {
        Ok(self.pruned)
    }
    async fn get_sampled_ranges(&self) -> Result<BlockRanges> {
        Ok(self.sampled)
    }
}

/// Daser model. Contract (visible in `Daser::on_want_to_prune`): `want_to_prune(h)` answers
/// `false` while sampling of `h` is in progress; otherwise it may answer anything.
pub struct ModelDaser {
    in_progress: BlockRanges,
    answers: u16,
    reported: Option<u64>,
}
impl ModelDaser {
    async fn want_to_prune(&mut self, height: u64) -> Result<bool> {
        if self.in_progress.contains(height) {
            return Ok(false);
        }
        Ok(height <= MAXH && (self.answers >> height) & 1 == 1)
    }
    async fn update_number_of_prunable_blocks(&mut self, n: u64) -> Result<()> {
        self.reported = Some(n);
        Ok(())
    }
}

#[derive(Default)]
pub struct Cache {
    after_pruning_window: Option<u64>,
    after_sampling_window: Option<u64>,
}

pub struct Worker {
    store: ModelStore,
    daser: ModelDaser,
    cache: Cache,
    prev_num_of_prunable_blocks: u64,
    times: [Time; (MAXH + 2) as usize],
}

fn time_of(times: &[Time; (MAXH + 2) as usize], h: u64) -> Time {
    let mut i = 0;
    let mut t = 0;
    while i <= MAXH {
        if i == h {
            t = times[i as usize];
        }
        i += 1;
    }
    t
}

impl Worker {
    /// MODEL of `update_cached_data`: any window edges that satisfy C36's contract.
    async fn update_cached_data(
        &mut self,
        _stored_blocks: &BlockRanges,
        sampling_cutoff: &Time,
        pruning_cutoff: &Time,
    ) -> Result<()> {
        let s: Option<u64> = if kani::any() { Some(kani::any()) } else { None };
        let p: Option<u64> = if kani::any() { Some(kani::any()) } else { None };
        if let Some(h) = s {
            kani::assume(h >= 1 && h <= MAXH && time_of(&self.times, h) <= *sampling_cutoff);
        }
        if let Some(h) = p {
            kani::assume(h >= 1 && h <= MAXH && time_of(&self.times, h) <= *pruning_cutoff);
        }
        self.cache.after_sampling_window = s;
        self.cache.after_pruning_window = p;
        Ok(())
    }
}

include!("generated/pruner_c35.rs");

fn batch_is_safe(case_pruning_window_shorter: bool) {
    let stored = BlockRanges::any();
    let pruned = BlockRanges::any();
    let sampled = BlockRanges::any();
    let in_progress = BlockRanges::any();
    kani::assume(pruned.0 & stored.0 == 0);
    kani::assume(sampled.0 & !stored.0 == 0);
    kani::assume(in_progress.0 & sampled.0 == 0);
    let times: [Time; (MAXH + 2) as usize] = kani::any();
    let mut i = 1;
    while i <= MAXH + 1 {
        kani::assume(times[i as usize - 1] < times[i as usize]);
        i += 1;
    }
    let (sampling_cutoff, pruning_cutoff): (Time, Time) = kani::any();
    // case 1: pruning window >= sampling window (pruning cutoff not later than the sampling cutoff)
    // case 2: pruning window shorter than the sampling window
    kani::assume((pruning_cutoff > sampling_cutoff) == case_pruning_window_shorter);
    let mut w = Worker {
        store: ModelStore { stored, pruned, sampled },
        daser: ModelDaser { in_progress, answers: kani::any(), reported: None },
        cache: Cache::default(),
        prev_num_of_prunable_blocks: kani::any(),
        times,
    };
    let batch = match crate::hx::run_ready(w.get_next_prunable_batch(sampling_cutoff, pruning_cutoff)) {
        Ok(b) => b,
        Err(_) => {
            assert!(false, "C35: batch computation failed on a consistent store");
            return;
        }
    };
    assert!(batch.len() <= 512, "C35: batch larger than 512");
    let h: u64 = kani::any();
    kani::assume(h >= 1 && h <= MAXH && batch.contains(h));
    let t = times[h as usize];
    let synced = BlockRanges(stored.0 | pruned.0);
    assert!(stored.contains(h), "C35: batch contains a height that is not stored");
    assert!(!(t > pruning_cutoff), "C35: a header inside the pruning window would be removed");
    if t > sampling_cutoff {
        assert!(sampled.contains(h), "C35: an unsampled header inside the sampling window would be removed");
        assert!(synced.contains(h - 1) && synced.contains(h + 1), "C35: a header inside the sampling window that borders an unsynced gap would be removed");
    }
    assert!(!in_progress.contains(h), "C35: a header whose sampling is in progress would be removed");
    kani::cover!(!case_pruning_window_shorter || t > sampling_cutoff, "witness: removal inside the sampling window");
    kani::cover!(t <= sampling_cutoff && !sampled.contains(h), "witness: unsampled removal outside the sampling window");
    kani::cover!(batch.len() >= 3, "witness: batch of >= 3");
}

// @verif prop=C35 tier=quick shape="pruning window >= sampling window; any stored/pruned/sampled/in-progress subsets of heights 1..=12 (sampled within stored, pruned disjoint from stored, in-progress disjoint from sampled), free increasing times, free cutoffs, any window edges satisfying C36's contract, any Daser answers" funcs="Worker::get_next_prunable_batch"
#[kani::proof]
#[kani::unwind(15)]
fn c35_batch_safe_pruning_window_longer() {
    batch_is_safe(false);
}

// @verif prop=C35 tier=quick shape="pruning window shorter than sampling window; same symbolic state" funcs="Worker::get_next_prunable_batch"
#[kani::proof]
#[kani::unwind(15)]
fn c35_batch_safe_pruning_window_shorter() {
    batch_is_safe(true);
}
