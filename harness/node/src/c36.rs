//! C36: the pruner's window-edge search finds the newest stored header outside the window.
//!
//! `find_height_after_window`, `_fast`, `_slow` and `struct BlockInfo` are sliced verbatim from
//! /repo/node/src/pruner.rs. They run against the bitset `BlockRanges` model (valid by C17), a
//! store over heights 1..=12 with strictly increasing free header times, and a cache model that
//! simply reads the store.
use crate::models::bitranges::{BlockRanges, MAXH};

pub type Time = u64;
type Result<T, E = PrunerError> = std::result::Result<T, E>;

#[derive(Debug)]
pub enum StoreError {
    NotFound,
}
#[derive(Debug)]
pub enum PrunerError {
    Store(StoreError),
}
impl From<StoreError> for PrunerError {
    fn from(e: StoreError) -> Self {
        PrunerError::Store(e)
    }
}

pub struct Header {
    height: u64,
    time: Time,
}
impl Header {
    pub fn height(&self) -> u64 {
        self.height
    }
    pub fn time(&self) -> Time {
        self.time
    }
}

pub trait Store {
    async fn get_by_height(&self, height: u64) -> std::result::Result<Header, StoreError>;
}

pub struct TStore {
    stored: BlockRanges,
    times: [Time; (MAXH + 2) as usize],
}
impl Store for TStore {
    async fn get_by_height(&self, height: u64) -> std::result::Result<Header, StoreError> {
        if self.stored.contains(height) {
            let mut i = 0;
            while i <= MAXH {
                if i == height {
                    return Ok(Header { height, time: self.times[i as usize] });
                }
                i += 1;
            }
        }
        Err(StoreError::NotFound)
    }
}

/// Cache model: no caching at all (every lookup reads the store). The real cache memoises the
/// same lookups; headers are immutable, so memoisation cannot change a result.
#[derive(Default)]
pub struct Cache;
impl Cache {
    async fn get_block_info<S: Store>(&mut self, store: &S, height: u64) -> Result<BlockInfo> {
        let header = store.get_by_height(height).await?;
        Ok(BlockInfo { height: header.height(), time: header.time() })
    }
}

include!("generated/pruner_c36.rs");

fn time_of(times: &[Time; (MAXH + 2) as usize], h: u64) -> Time {
    let mut i = 0;
    let mut t = 0;
    while i <= MAXH {
        if i == h {
            t = times[i as usize];
        }
        i += 1;
    }
    t
}

fn search(with_prev: bool) {
    let stored = BlockRanges::any();
    let times: [Time; (MAXH + 2) as usize] = kani::any();
    let mut i = 1;
    while i <= MAXH {
        // header times increase with height (ties are impossible for distinct heights)
        kani::assume(times[i as usize - 1] < times[i as usize]);
        i += 1;
    }
    let cutoff: Time = kani::any();
    let prev = if with_prev {
        // an answer that was correct for an earlier cutoff: its time is not newer than that cutoff
        // and no stored header above it is older than that cutoff (prev itself may be pruned since)
        let p: u64 = kani::any();
        let earlier: Time = kani::any();
        kani::assume(p >= 1 && p <= MAXH && earlier <= cutoff);
        kani::assume(time_of(&times, p) <= earlier);
        let mut g = 1;
        while g <= MAXH {
            kani::assume(!(g > p && stored.contains(g)) || times[g as usize] >= earlier);
            g += 1;
        }
        Some(p)
    } else {
        None
    };
    let store = TStore { stored, times };
    let mut cache = Cache;
    let res = crate::hx::run_ready(find_height_after_window(&store, &stored, &cutoff, prev, &mut cache));
    let probe: u64 = kani::any();
    kani::assume(probe >= 1 && probe <= MAXH && stored.contains(probe));
    match res {
        Ok(Some(h)) => {
            assert!(stored.contains(h), "C36: returned height is not stored");
            assert!(time_of(&times, h) <= cutoff, "C36: returned header is newer than the cutoff");
            assert!(!(probe > h) || times[probe as usize] >= cutoff, "C36: a stored header above the answer is older than the cutoff");
        }
        Ok(None) => {
            assert!(!(times[probe as usize] < cutoff), "C36: nothing returned although a stored header is strictly older than the cutoff");
        }
        Err(_) => assert!(false, "C36: the search failed on a consistent store"),
    }
    kani::cover!(matches!(res, Ok(Some(_))) && stored.len() >= 4, "witness: answer in a store of >= 4 headers");
    kani::cover!(matches!(res, Ok(None)) && stored.len() >= 2, "witness: everything inside the window");
}

// @verif prop=C36 tier=quick shape="any stored subset of heights 1..=12, free strictly increasing times, free cutoff, no previous answer" funcs="find_height_after_window,find_height_after_window_fast,find_height_after_window_slow"
#[kani::proof]
#[kani::unwind(15)]
fn c36_search_without_previous_answer() {
    search(false);
}

// @verif prop=C36 tier=quick shape="any stored subset of heights 1..=12, free strictly increasing times, free cutoff, previous answer = any height that was correct for any earlier cutoff (possibly pruned since)" funcs="find_height_after_window,find_height_after_window_fast,find_height_after_window_slow"
#[kani::proof]
#[kani::unwind(15)]
fn c36_search_with_previous_answer() {
    search(true);
}
