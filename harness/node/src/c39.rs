//! C39: peer tracker counts match peer states.
//!
//! Sliced verbatim from /repo/node/src/peer_tracker.rs: the structs `PeerTracker`,
//! `PeerTrackerInfo`, `Peer`, `ConnectionInfo`, `enum NodeKind`, `EXPIRED_AFTER`, and the methods
//! Peer::{new,id,is_connected,is_trusted,is_protected,is_protected_with_tag,is_archival,is_full},
//! NodeKind::is_full, PeerTracker::{info,peer,add_peer_id,set_trusted,protect,unprotect,
//! protected_len,add_connection,remove_connection,mark_as_archival,recount_peer_tracker_info,gc}.
//! One event from an ARBITRARY consistent tracker state with up to 2 tracked peers (events may name a third), 2 connections and 2
//! protection tags each. Environment: association-list HashMap/HashSet, a watch channel cell, an
//! event sink, a clock whose elapsed times are free. Agent-version parsing (`&str` splitting) is
//! not executed: node kinds are part of the free state.
use std::time::Duration;

macro_rules! info {
    ($($t:tt)*) => {};
}

#[derive(Clone, Copy, PartialEq, Eq, Debug)]
pub struct PeerId(pub u8);
impl PeerId {
    pub fn to_owned(&self) -> PeerId {
        *self
    }
}
#[derive(Clone, Copy, PartialEq, Eq, Debug)]
pub struct ConnectionId(pub u8);
#[derive(Clone, Copy, Debug)]
pub struct Instant {
    age: u64,
}
impl Instant {
    pub fn now() -> Instant {
        Instant { age: 0 }
    }
    pub fn elapsed(&self) -> Duration {
        Duration::from_secs(self.age)
    }
}
pub enum NodeEvent {
    PeerConnected { id: PeerId, trusted: bool },
    PeerDisconnected { id: PeerId, trusted: bool },
}
#[derive(Debug)]
pub struct EventPublisher {
    sent: std::cell::Cell<u32>,
}
impl EventPublisher {
    pub fn send(&self, e: NodeEvent) {
        std::mem::forget(e);
        self.sent.set(self.sent.get() + 1);
    }
}
pub mod watch {
    use std::cell::{Ref, RefCell};
    #[derive(Debug)]
    pub struct Sender<T>(RefCell<T>);
    pub struct Receiver<T>(std::marker::PhantomData<T>);
    pub fn channel<T>(v: T) -> (Sender<T>, Receiver<T>) {
        (Sender(RefCell::new(v)), Receiver(std::marker::PhantomData))
    }
    impl<T> Sender<T> {
        pub fn send_if_modified<F: FnOnce(&mut T) -> bool>(&self, f: F) -> bool {
            f(&mut self.0.borrow_mut())
        }
        pub fn borrow(&self) -> Ref<'_, T> {
            self.0.borrow()
        }
    }
}

// ---- HashMap / HashSet models ----------------------------------------------------------------------
pub const MCAP: usize = 3;
#[derive(Debug)]
pub struct HashMap<K, V> {
    slots: [Option<(K, V)>; MCAP],
}
pub enum Entry<'a, K, V> {
    Occupied(OccupiedEntry<'a, K, V>),
    Vacant(VacantEntry<'a, K, V>),
}
pub struct OccupiedEntry<'a, K, V> {
    m: &'a mut HashMap<K, V>,
    idx: usize,
}
pub struct VacantEntry<'a, K, V> {
    m: &'a mut HashMap<K, V>,
    key: K,
}
impl<K: Copy + PartialEq, V> HashMap<K, V> {
    pub fn new() -> Self {
        HashMap { slots: std::array::from_fn(|_| None) }
    }
    fn find(&self, k: &K) -> Option<usize> {
        let mut i = 0;
        while i < MCAP {
            if let Some((kk, _)) = &self.slots[i] {
                if kk == k {
                    return Some(i);
                }
            }
            i += 1;
        }
        None
    }
    fn slot_mut(&mut self, idx: usize) -> &mut V {
        let mut i = 0;
        while i < MCAP {
            if i == idx {
                if let Some((_, v)) = self.slots[i].as_mut() {
                    return v;
                }
            }
            i += 1;
        }
        panic!("HashMap model: empty slot");
    }
    pub fn is_empty(&self) -> bool {
        let mut i = 0;
        while i < MCAP {
            if self.slots[i].is_some() {
                return false;
            }
            i += 1;
        }
        true
    }
    pub fn get(&self, k: &K) -> Option<&V> {
        let mut i = 0;
        while i < MCAP {
            if let Some((kk, v)) = &self.slots[i] {
                if kk == k {
                    return Some(v);
                }
            }
            i += 1;
        }
        None
    }
    pub fn get_mut(&mut self, k: &K) -> Option<&mut V> {
        match self.find(k) {
            Some(i) => Some(self.slot_mut(i)),
            None => None,
        }
    }
    pub fn insert(&mut self, k: K, v: V) -> Option<V> {
        if let Some(i) = self.find(&k) {
            return Some(std::mem::replace(self.slot_mut(i), v));
        }
        let mut v = Some(v);
        let mut i = 0;
        while i < MCAP {
            if self.slots[i].is_none() {
                self.slots[i] = Some((k, v.take().unwrap()));
                return None;
            }
            i += 1;
        }
        panic!("HashMap model capacity exceeded");
    }
    pub fn entry(&mut self, key: K) -> Entry<'_, K, V> {
        match self.find(&key) {
            Some(idx) => Entry::Occupied(OccupiedEntry { m: self, idx }),
            None => Entry::Vacant(VacantEntry { m: self, key }),
        }
    }
    pub fn retain<F: FnMut(&K, &mut V) -> bool>(&mut self, mut f: F) {
        let mut i = 0;
        while i < MCAP {
            let keep = match self.slots[i].as_mut() {
                Some((k, v)) => f(k, v),
                None => true,
            };
            if !keep {
                if let Some(kv) = self.slots[i].take() {
                    std::mem::forget(kv);
                }
            }
            i += 1;
        }
    }
    pub fn values(&self) -> Values<'_, K, V> {
        Values { m: self, pos: 0 }
    }
}
pub struct Values<'a, K, V> {
    m: &'a HashMap<K, V>,
    pos: usize,
}
impl<'a, K, V> Iterator for Values<'a, K, V> {
    type Item = &'a V;
    fn next(&mut self) -> Option<&'a V> {
        while self.pos < MCAP {
            let i = self.pos;
            self.pos += 1;
            let mut k = 0;
            while k < MCAP {
                if k == i {
                    if let Some((_, v)) = &self.m.slots[k] {
                        return Some(v);
                    }
                }
                k += 1;
            }
        }
        None
    }
}
impl<'a, K: Copy + PartialEq, V> Entry<'a, K, V> {
    pub fn or_insert_with<F: FnOnce() -> V>(self, f: F) -> &'a mut V {
        match self {
            Entry::Occupied(e) => e.m.slot_mut(e.idx),
            Entry::Vacant(e) => {
                e.m.insert(e.key, f());
                let i = e.m.find(&e.key).unwrap();
                e.m.slot_mut(i)
            }
        }
    }
    pub fn or_default(self) -> &'a mut V
    where
        V: Default,
    {
        self.or_insert_with(V::default)
    }
}
impl<'a, K: Copy + PartialEq, V> VacantEntry<'a, K, V> {
    pub fn insert(self, v: V) {
        self.m.insert(self.key, v);
    }
}
#[derive(Debug)]
pub struct HashSet<T> {
    items: [Option<T>; 3],
}
impl<T: Copy + PartialEq> HashSet<T> {
    pub fn new() -> Self {
        HashSet { items: [None; 3] }
    }
    pub fn contains(&self, t: &T) -> bool {
        let mut i = 0;
        while i < 3 {
            if self.items[i] == Some(*t) {
                return true;
            }
            i += 1;
        }
        false
    }
    pub fn is_empty(&self) -> bool {
        self.items[0].is_none() && self.items[1].is_none() && self.items[2].is_none()
    }
    pub fn insert(&mut self, t: T) -> bool {
        if self.contains(&t) {
            return false;
        }
        let mut i = 0;
        while i < 3 {
            if self.items[i].is_none() {
                self.items[i] = Some(t);
                return true;
            }
            i += 1;
        }
        panic!("HashSet model capacity exceeded");
    }
    pub fn remove(&mut self, t: &T) -> bool {
        let mut i = 0;
        while i < 3 {
            if self.items[i] == Some(*t) {
                self.items[i] = None;
                return true;
            }
            i += 1;
        }
        false
    }
}

include!("generated/peer_tracker_c39.rs");

// ---- arbitrary consistent state ----------------------------------------------------------------------
const TAGS: [u32; 2] = [7, 9];

fn any_peer(id: u8) -> Peer {
    let mut p = Peer::new(PeerId(id));
    if kani::any() {
        p.connections.insert(ConnectionId(1), ConnectionInfo::default());
    }
    if kani::any() {
        p.connections.insert(ConnectionId(2), ConnectionInfo::default());
    }
    if kani::any() {
        p.protected.insert(7);
    }
    if kani::any() {
        p.protected.insert(9);
    }
    p.trusted = kani::any();
    let kind: u8 = kani::any();
    kani::assume(kind < 4);
    if p.is_connected() {
        // kind and archival flag are only kept while connected (remove_connection resets them)
        p.archival = kani::any();
        p.node_kind = match kind {
            0 => NodeKind::Unknown,
            1 => NodeKind::Bridge,
            2 => NodeKind::Full,
            _ => NodeKind::Light,
        };
        p.disconnected_at = None;
    } else {
        p.disconnected_at = Some(Instant { age: kani::any() });
    }
    p
}

fn recount(t: &PeerTracker) -> PeerTrackerInfo {
    let mut info = PeerTrackerInfo::default();
    let mut id = 1u8;
    while id <= 3 {
        if let Some(p) = t.peer(&PeerId(id)) {
            if !p.connections.is_empty() {
                info.num_connected_peers += 1;
                if p.trusted {
                    info.num_connected_trusted_peers += 1;
                }
                if matches!(p.node_kind, NodeKind::Full | NodeKind::Bridge) {
                    info.num_connected_full_nodes += 1;
                }
                if p.archival {
                    info.num_connected_archival_nodes += 1;
                }
            }
        }
        id += 1;
    }
    info
}

fn count_tag(t: &PeerTracker, tag: u32) -> usize {
    let mut n = 0;
    let mut id = 1u8;
    while id <= 3 {
        if let Some(p) = t.peer(&PeerId(id)) {
            if p.protected.contains(&tag) {
                n += 1;
            }
        }
        id += 1;
    }
    n
}

fn any_tracker() -> PeerTracker {
    let mut t = PeerTracker {
        peers: HashMap::new(),
        protect_counter: HashMap::new(),
        info_tx: watch::channel(PeerTrackerInfo::default()).0,
        event_pub: EventPublisher { sent: std::cell::Cell::new(0) },
    };
    let mut id = 1u8;
    while id <= 2 {
        if kani::any() {
            t.peers.insert(PeerId(id), any_peer(id));
        }
        id += 1;
    }
    // consistent counters and published statistics
    let mut k = 0;
    while k < 2 {
        let n = count_tag(&t, TAGS[k]);
        if n > 0 || kani::any() {
            t.protect_counter.insert(TAGS[k], n);
        }
        k += 1;
    }
    let info = recount(&t);
    t.info_tx.send_if_modified(|i| {
        *i = info;
        true
    });
    t
}

fn consistent(t: &PeerTracker) -> bool {
    t.info() == recount(t) && t.protected_len(7) == count_tag(t, 7) && t.protected_len(9) == count_tag(t, 9) && t.protected_len(11) == count_tag(t, 11)
}

fn step(op: u8) {
    let mut t = any_tracker();
    assert!(consistent(&t), "C39 harness: the generated state must be consistent");
    let peer = PeerId(kani::any());
    kani::assume(peer.0 >= 1 && peer.0 <= 3);
    let conn = ConnectionId(kani::any());
    kani::assume(conn.0 >= 1 && conn.0 <= 3);
    let tag: u32 = kani::any();
    kani::assume(tag == 7 || tag == 9 || tag == 11);
    // what must survive a garbage collection
    let watched = PeerId(kani::any());
    kani::assume(watched.0 >= 1 && watched.0 <= 2);
    let must_stay = matches!(t.peer(&watched), Some(p) if p.is_connected() || p.is_protected());
    match op {
        0 => t.add_connection(&peer, conn),
        1 => t.remove_connection(&peer, conn),
        2 => t.set_trusted(&peer, kani::any()),
        3 => {
            let was = t.peer(&peer).is_some_and(|p| p.is_protected());
            let changed = t.protect(&peer, tag);
            assert!(changed == !was, "C39 protect: return value is not 'became protected'");
        }
        4 => {
            let was = t.peer(&peer).is_some_and(|p| p.is_protected());
            let changed = t.unprotect(&peer, tag);
            let now = t.peer(&peer).is_some_and(|p| p.is_protected());
            assert!(changed == (was && !now), "C39 unprotect: return value is not 'became unprotected'");
        }
        5 => t.mark_as_archival(&peer),
        6 => {
            t.gc();
            assert!(!must_stay || t.peer(&watched).is_some(), "C39 gc forgot a connected or protected peer");
        }
        _ => {
            let _ = t.add_peer_id(&peer);
        }
    }
    assert!(t.info() == recount(&t), "C39: published peer statistics differ from a recount of the tracked peers");
    assert!(
        t.protected_len(7) == count_tag(&t, 7) && t.protected_len(9) == count_tag(&t, 9) && t.protected_len(11) == count_tag(&t, 11),
        "C39: a per-tag protected count differs from the number of peers protected with that tag"
    );
    kani::cover!(t.info().num_connected_peers >= 2, "witness: two connected peers");
    std::mem::forget(t);
}

// @verif prop=C39 tier=quick shape="any consistent tracker (<= 2 peers, 2 connections, tags 7/9); add_connection of a free peer (1..=3) and connection" funcs="PeerTracker::{add_connection,recount_peer_tracker_info,info,protected_len},Peer::{new,is_connected,is_trusted,is_full,is_archival}"
#[kani::proof]
#[kani::unwind(6)]
#[kani::solver(minisat)]
fn c39_add_connection() {
    step(0);
}

// @verif prop=C39 tier=quick shape="any consistent tracker; remove_connection of a free peer and connection" funcs="PeerTracker::{remove_connection,recount_peer_tracker_info}"
#[kani::proof]
#[kani::unwind(6)]
#[kani::solver(minisat)]
fn c39_remove_connection() {
    step(1);
}

// @verif prop=C39 tier=quick shape="any consistent tracker; set_trusted / mark_as_archival / add_peer_id of a free peer" funcs="PeerTracker::{set_trusted,mark_as_archival,add_peer_id,recount_peer_tracker_info}"
#[kani::proof]
#[kani::unwind(6)]
#[kani::solver(minisat)]
fn c39_trust_archival_add() {
    let which: u8 = kani::any();
    kani::assume(which == 2 || which == 5 || which == 7);
    step(which);
}

// @verif prop=C39 tier=quick shape="any consistent tracker; protect / unprotect of a free peer with a free tag (7, 9 or a new one)" funcs="PeerTracker::{protect,unprotect,protected_len},Peer::{is_protected}"
#[kani::proof]
#[kani::unwind(6)]
#[kani::solver(minisat)]
fn c39_protect_unprotect() {
    let which: u8 = kani::any();
    kani::assume(which == 3 || which == 4);
    step(which);
}

// @verif prop=C39 tier=quick shape="any consistent tracker with free disconnection ages; gc" funcs="PeerTracker::gc"
#[kani::proof]
#[kani::unwind(6)]
#[kani::solver(minisat)]
fn c39_gc() {
    step(6);
}
