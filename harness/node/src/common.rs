//! Shared helpers: symbolic valid `BlockRanges` states and the reference set semantics.
use crate::block_ranges::{BlockRange, BlockRanges};
use smallvec::SmallVec;

/// `N` symbolic ranges satisfying the representation invariant:
/// start >= 1, start <= end, prev.end + 1 < next.start.
pub fn any_bounds<const N: usize>() -> [(u64, u64); N] {
    let b: [(u64, u64); N] = kani::any();
    let mut i = 0;
    while i < N {
        kani::assume(b[i].0 >= 1 && b[i].0 <= b[i].1);
        if i > 0 {
            // strictly non-adjacent: at least one missing height in between
            kani::assume(b[i - 1].1 < u64::MAX - 1 && b[i - 1].1 + 1 < b[i].0);
        }
        i += 1;
    }
    b
}

/// Build the real `BlockRanges` value for the given bounds.
///
/// The value is wrapped directly (accessor appended to the generated copy of block_ranges.rs):
/// going through `from_vec(..).expect(..)` moves the 152-byte vector through a `Result`, which
/// CBMC encodes byte-wise and which multiplies the formula size by 20 (measured).
/// `from_vec` itself is checked separately (harness `c17_from_vec_*`).
pub fn build<const N: usize>(b: &[(u64, u64); N]) -> BlockRanges {
    let mut v: SmallVec<[BlockRange; 2]> = SmallVec::new();
    let mut i = 0;
    while i < N {
        v.push(b[i].0..=b[i].1);
        i += 1;
    }
    crate::block_ranges::verif_access::raw(v)
}

fn inner(r: &BlockRanges) -> &SmallVec<[BlockRange; 2]> {
    crate::block_ranges::verif_access::inner(r)
}

/// Reference membership: is `h` in the set denoted by the bounds?
pub fn mem<const N: usize>(b: &[(u64, u64); N], h: u64) -> bool {
    let mut i = 0;
    let mut r = false;
    while i < N {
        r = r || (b[i].0 <= h && h <= b[i].1);
        i += 1;
    }
    r
}

/// Reference cardinality (u128, cannot overflow).
pub fn card<const N: usize>(b: &[(u64, u64); N]) -> u128 {
    let mut i = 0;
    let mut r = 0u128;
    while i < N {
        r += (b[i].1 - b[i].0) as u128 + 1;
        i += 1;
    }
    r
}

/// Representation invariant of a real value, observed through `as_ref()`.
pub fn repr_ok(r: &BlockRanges) -> bool {
    let s = inner(r);
    let mut i = 0;
    let mut ok = true;
    while i < s.len() {
        ok = ok && *s[i].start() >= 1 && s[i].start() <= s[i].end();
        if i > 0 {
            ok = ok && *s[i - 1].end() < u64::MAX - 1 && *s[i - 1].end() + 1 < *s[i].start();
        }
        i += 1;
    }
    ok
}

/// Membership in a real value, computed from its representation (not via `contains`).
pub fn rmem(r: &BlockRanges, h: u64) -> bool {
    let s = inner(r);
    let mut i = 0;
    let mut m = false;
    while i < s.len() {
        m = m || (*s[i].start() <= h && h <= *s[i].end());
        i += 1;
    }
    m
}

/// Cardinality of a real value from its representation.
pub fn rcard(r: &BlockRanges) -> u128 {
    let s = inner(r);
    let mut i = 0;
    let mut c = 0u128;
    while i < s.len() {
        c += (*s[i].end() - *s[i].start()) as u128 + 1;
        i += 1;
    }
    c
}
