//! Environment models for the header-ex slices (Mode C).
//!
//! Everything here stands in for code that cannot be encoded (libp2p, tokio, futures
//! executors, the real `Store` back ends, tendermint header decoding). The protobuf message
//! types (`HeaderRequest`, `HeaderResponse`, `StatusCode`) and `Hash` are the REAL types of
//! celestia-proto / celestia-types.
use std::future::Future;
use std::pin::Pin;
use std::task::{Context, Poll, RawWaker, RawWakerVTable, Waker};

pub use pb::{header_request, HeaderRequest, HeaderResponse, StatusCode};

/// No-op waker: model futures are immediately ready or are polled again by the harness.
pub fn noop_waker() -> Waker {
    fn clone(_: *const ()) -> RawWaker {
        RawWaker::new(std::ptr::null(), &VTABLE)
    }
    fn noop(_: *const ()) {}
    static VTABLE: RawWakerVTable = RawWakerVTable::new(clone, noop, noop, noop);
    unsafe { Waker::from_raw(RawWaker::new(std::ptr::null(), &VTABLE)) }
}

/// Drive a future that must complete without ever pending (all model futures are ready).
pub fn run_ready<F: Future>(f: F) -> F::Output {
    let waker = noop_waker();
    let mut cx = Context::from_waker(&waker);
    let mut f = std::pin::pin!(f);
    match f.as_mut().poll(&mut cx) {
        Poll::Ready(v) => v,
        Poll::Pending => panic!("model future was not ready"),
    }
}

// ------------------------------------------------------------------------------------------------
// futures crate subset
// ------------------------------------------------------------------------------------------------
/// `BoxFuture` model WITHOUT type erasure. Every future of the environment models is immediately
/// ready, so `.boxed()` runs the async block to completion on the spot and stores its output;
/// polling hands the output over. In a single-step harness nothing can happen between queueing a
/// task and polling it, so evaluating at queue time is unobservable. Why not `Pin<Box<dyn Future>>`:
/// when paths that queued different async blocks merge, the task slot is an if-then-else of fat
/// pointers to objects of different closure types and CBMC executes every candidate body on every
/// candidate object (measured on the header-ex server: 430 k symex steps, > 14 GB).
pub struct BoxFuture<'a, T> {
    out: Option<T>,
    _p: std::marker::PhantomData<&'a ()>,
}

impl<'a, T> Unpin for BoxFuture<'a, T> {}

impl<'a, T> Future for BoxFuture<'a, T> {
    type Output = T;
    fn poll(mut self: Pin<&mut Self>, _cx: &mut Context<'_>) -> Poll<T> {
        match self.out.take() {
            Some(v) => Poll::Ready(v),
            None => Poll::Pending,
        }
    }
}

pub trait FutureExt: Future + Sized {
    fn boxed<'a>(self) -> BoxFuture<'a, Self::Output>
    where
        Self: 'a,
    {
        BoxFuture { out: Some(run_ready(self)), _p: std::marker::PhantomData }
    }
}
impl<F: Future> FutureExt for F {}

/// `FuturesUnordered` model: at most `FU_CAP` tasks in a fixed array of slots, polled in slot
/// order (the real one polls in wake-up order; harnesses that depend on the order make the
/// choice symbolic themselves).
pub const FU_CAP: usize = 4;

pub struct FuturesUnordered<F> {
    slots: [Option<F>; FU_CAP],
}

impl<F: Future + Unpin> FuturesUnordered<F> {
    pub fn new() -> Self {
        FuturesUnordered { slots: [None, None, None, None] }
    }
    pub fn push(&mut self, f: F) {
        let mut i = 0;
        while i < FU_CAP {
            if self.slots[i].is_none() {
                self.slots[i] = Some(f);
                return;
            }
            i += 1;
        }
        panic!("FuturesUnordered model capacity exceeded");
    }
    pub fn clear(&mut self) {
        let mut i = 0;
        while i < FU_CAP {
            if let Some(f) = self.slots[i].take() {
                std::mem::forget(f);
            }
            i += 1;
        }
    }
    pub fn len(&self) -> usize {
        let mut n = 0;
        let mut i = 0;
        while i < FU_CAP {
            if self.slots[i].is_some() {
                n += 1;
            }
            i += 1;
        }
        n
    }
    pub fn is_empty(&self) -> bool {
        self.len() == 0
    }
    /// `StreamExt::poll_next_unpin`: the first task that is ready is removed and returned.
    pub fn poll_next_unpin(&mut self, cx: &mut Context<'_>) -> Poll<Option<F::Output>> {
        if self.is_empty() {
            return Poll::Ready(None);
        }
        let mut i = 0;
        while i < FU_CAP {
            if let Some(f) = self.slots[i].as_mut() {
                if let Poll::Ready(v) = Pin::new(f).poll(cx) {
                    if let Some(done) = self.slots[i].take() {
                        std::mem::forget(done);
                    }
                    return Poll::Ready(Some(v));
                }
            }
            i += 1;
        }
        Poll::Pending
    }
}

// ------------------------------------------------------------------------------------------------
// libp2p subset
// ------------------------------------------------------------------------------------------------
#[derive(Debug, Clone, Copy, PartialEq, Eq)]
pub struct PeerId(pub u8);
#[derive(Debug, Clone, Copy, PartialEq, Eq)]
pub struct InboundRequestId(pub u64);
#[derive(Debug)]
pub struct InboundFailure;
impl std::fmt::Display for PeerId {
    fn fmt(&self, _: &mut std::fmt::Formatter<'_>) -> std::fmt::Result {
        Ok(())
    }
}
impl std::fmt::Display for InboundRequestId {
    fn fmt(&self, _: &mut std::fmt::Formatter<'_>) -> std::fmt::Result {
        Ok(())
    }
}

// ------------------------------------------------------------------------------------------------
// hash model (same shape as tendermint::Hash)
// ------------------------------------------------------------------------------------------------
#[derive(Debug, Clone, Copy, PartialEq, Eq)]
pub enum Hash {
    Sha256([u8; 32]),
    None,
}
pub struct HashBytes<'a>(&'a [u8; 32], bool);
impl Hash {
    pub fn as_bytes(&self) -> HashBytes<'_> {
        static EMPTY: [u8; 32] = [0; 32];
        match self {
            Hash::Sha256(b) => HashBytes(b, true),
            Hash::None => HashBytes(&EMPTY, false),
        }
    }
}
impl<'a> PartialEq<&MVec<u8>> for HashBytes<'a> {
    fn eq(&self, other: &&MVec<u8>) -> bool {
        if !self.1 || other.len() != 32 {
            return false;
        }
        let mut same = true;
        let mut i = 0;
        while i < 32 {
            same = same && other.get(i) == Some(&self.0[i]);
            i += 1;
        }
        same
    }
}
impl<'a> HashBytes<'a> {
    pub fn to_vec(&self) -> MVec<u8> {
        let mut v = MVec::new();
        let mut i = 0;
        while i < 32 {
            if self.1 {
                v.push(self.0[i]);
            }
            i += 1;
        }
        v
    }
}

// ------------------------------------------------------------------------------------------------
// header model
// ------------------------------------------------------------------------------------------------
/// Model of `ExtendedHeader` for the server side: a height plus the 32-byte hash it is stored under.
#[derive(Debug, Clone, PartialEq, Eq)]
pub struct ExtendedHeader {
    pub height: u64,
    /// identifies the header's hash (hash = 32 bytes all equal to `hash_id`)
    pub hash_id: u8,
}

impl ExtendedHeader {
    pub fn height(&self) -> u64 {
        self.height
    }
    pub fn hash(&self) -> Hash {
        Hash::Sha256([self.hash_id; 32])
    }
    /// Stands in for `ExtendedHeader::decode_and_validate`: a body is a valid header iff it
    /// holds exactly one encoded-header unit.
    pub fn decode_and_validate(body: &MVec<EncodedHeader>) -> Result<ExtendedHeader, ()> {
        match body.get(0) {
            Some(e) if e.valid => Ok(ExtendedHeader { height: e.height, hash_id: e.hash_id }),
            Some(_) => Err(()),
            None => Err(()),
        }
    }
    /// Stands in for `Protobuf::encode_vec`. The encoded body is modelled as a vector holding ONE
    /// opaque unit (the encoded header) instead of its bytes: per-byte vectors multiply the size
    /// of the formula and of counterexample traces (measured: 600 k symex steps, trace > 44 GB)
    /// and no checked property looks inside a body.
    pub fn encode_vec(self) -> MVec<EncodedHeader> {
        let mut v = MVec::new();
        v.push(EncodedHeader { height: self.height, hash_id: self.hash_id, valid: true });
        v
    }
}

#[derive(Debug, Clone, Copy, PartialEq, Eq)]
pub struct EncodedHeader {
    pub height: u64,
    pub hash_id: u8,
    /// whether `decode_and_validate` accepts it (free in the client-side harnesses)
    pub valid: bool,
}

#[derive(Debug)]
pub enum StoreError {
    NotFound,
    Other,
}

/// The slice of the `Store` trait the header-ex server may use (async fns instead of
/// `#[async_trait]` boxed futures; every future is immediately ready).
pub trait Store {
    async fn get_head(&self) -> Result<ExtendedHeader, StoreError>;
    async fn get_by_hash(&self, hash: &Hash) -> Result<ExtendedHeader, StoreError>;
    async fn get_by_height(&self, height: u64) -> Result<ExtendedHeader, StoreError>;
    async fn head_height(&self) -> Result<u64, StoreError>;
    async fn has_at(&self, height: u64) -> bool;
    async fn get_range(&self, range: std::ops::RangeInclusive<u64>) -> Result<MVec<ExtendedHeader>, StoreError>;
}

/// A store holding an arbitrary subset of a window of `W` consecutive heights placed at an
/// arbitrary base (possibly ending at u64::MAX); everything outside the window is absent.
pub const W: u64 = 4;
pub struct WindowStore {
    pub base: u64,
    pub bits: u8,
    /// the height whose header is stored under the hash the harness asks for (0 = none)
    pub hash_hit: u64,
    pub wanted_hash: [u8; 32],
}

impl WindowStore {
    pub fn any() -> Self {
        let base: u64 = kani::any();
        let bits: u8 = kani::any();
        kani::assume(base >= 1 && base <= u64::MAX - (W - 1));
        kani::assume(bits < (1 << W));
        let hash_hit: u64 = kani::any();
        let wanted_hash: [u8; 32] = kani::any();
        let s = WindowStore { base, bits, hash_hit, wanted_hash };
        kani::assume(hash_hit == 0 || s.has(hash_hit));
        s
    }
    pub fn has(&self, h: u64) -> bool {
        h >= self.base && h - self.base < W && (self.bits >> (h - self.base)) & 1 == 1
    }
    pub fn head(&self) -> Option<u64> {
        let mut i = W;
        while i > 0 {
            i -= 1;
            if (self.bits >> i) & 1 == 1 {
                return Some(self.base + i);
            }
        }
        None
    }
}

impl Store for WindowStore {
    async fn get_head(&self) -> Result<ExtendedHeader, StoreError> {
        match self.head() {
            Some(h) => Ok(ExtendedHeader { height: h, hash_id: 0 }),
            None => Err(StoreError::NotFound),
        }
    }
    async fn get_by_hash(&self, hash: &Hash) -> Result<ExtendedHeader, StoreError> {
        let same = match hash {
            Hash::Sha256(b) => {
                let mut eq = true;
                let mut i = 0;
                while i < 32 {
                    eq = eq && b[i] == self.wanted_hash[i];
                    i += 1;
                }
                eq
            }
            Hash::None => false,
        };
        if same && self.hash_hit != 0 {
            Ok(ExtendedHeader { height: self.hash_hit, hash_id: 0 })
        } else {
            Err(StoreError::NotFound)
        }
    }
    async fn get_by_height(&self, height: u64) -> Result<ExtendedHeader, StoreError> {
        if self.has(height) {
            Ok(ExtendedHeader { height, hash_id: 0 })
        } else {
            Err(StoreError::NotFound)
        }
    }
    async fn head_height(&self) -> Result<u64, StoreError> {
        self.head().ok_or(StoreError::NotFound)
    }
    async fn has_at(&self, height: u64) -> bool {
        self.has(height)
    }
    async fn get_range(&self, range: std::ops::RangeInclusive<u64>) -> Result<MVec<ExtendedHeader>, StoreError> {
        // like the real stores: fails as a whole when any height of the range is missing
        let (s, e) = (*range.start(), *range.end());
        if s > e {
            return Ok(MVec::new());
        }
        let mut out = MVec::new();
        let mut h = s;
        let mut n = 0;
        while n <= W {
            if !self.has(h) {
                return Err(StoreError::NotFound);
            }
            out.push(ExtendedHeader { height: h, hash_id: 0 });
            if h == e {
                return Ok(out);
            }
            h += 1;
            n += 1;
        }
        Err(StoreError::NotFound)
    }
}

// ------------------------------------------------------------------------------------------------
// Vec model
// ------------------------------------------------------------------------------------------------
/// Array-backed vector standing in for `Vec<T>` in sliced code. The capacity depends on the
/// element type (`Elem::CAP`: 34 for bytes -- hashes are 32 bytes --, 6 for protocol messages);
/// exceeding it is an assertion failure. It is NOT part of the type, so a refactor that spells a
/// type as `Vec<_>` keeps compiling. Why not std `Vec`: a `Vec` of structs that own heap buffers
/// costs tens of millions of SAT variables per push (measured: 29.6 M for three pushes of
/// `HeaderResponse`). All element accesses use indices that are constant after unwinding.
pub trait Elem: Sized {
    type Store;
    const CAP: usize;
    fn new_store() -> Self::Store;
    /// `store[i] = Some(v)` for the (possibly symbolic) `idx`
    fn put(store: &mut Self::Store, idx: usize, v: Self);
    fn at(store: &Self::Store, idx: usize) -> Option<&Self>;
}

macro_rules! elem_impl {
    ($t:ty, $cap:expr) => {
        impl Elem for $t {
            type Store = [Option<$t>; $cap];
            const CAP: usize = $cap;
            fn new_store() -> Self::Store {
                std::array::from_fn(|_| None)
            }
            fn put(store: &mut Self::Store, idx: usize, v: Self) {
                let mut v = Some(v);
                let mut i = 0;
                while i < $cap {
                    if i == idx {
                        store[i] = v.take();
                    }
                    i += 1;
                }
            }
            fn at(store: &Self::Store, idx: usize) -> Option<&Self> {
                let mut i = 0;
                while i < $cap {
                    if i == idx {
                        return store[i].as_ref();
                    }
                    i += 1;
                }
                None
            }
        }
    };
}
pub const BYTES_CAP: usize = 34;
pub const MSGS_CAP: usize = 6;
elem_impl!(u8, BYTES_CAP);
elem_impl!(pb::HeaderResponse, MSGS_CAP);
elem_impl!(ExtendedHeader, MSGS_CAP);
elem_impl!(EncodedHeader, 1);

pub struct MVec<T: Elem> {
    store: T::Store,
    len: usize,
}

impl<T: Elem> MVec<T> {
    pub fn new() -> Self {
        MVec { store: T::new_store(), len: 0 }
    }
    pub fn len(&self) -> usize {
        self.len
    }
    pub fn is_empty(&self) -> bool {
        self.len == 0
    }
    /// std `Vec` panics with "capacity overflow" when the requested capacity exceeds
    /// `isize::MAX` bytes; the model keeps that panic (requests for less are no-ops).
    fn check_capacity(n: usize) {
        let elem = std::mem::size_of::<T>().max(1);
        assert!(n <= (isize::MAX as usize) / elem, "capacity overflow (Vec::reserve/with_capacity beyond isize::MAX bytes)");
    }
    pub fn reserve_exact(&mut self, additional: usize) {
        Self::check_capacity(additional);
    }
    pub fn reserve(&mut self, additional: usize) {
        Self::check_capacity(additional);
    }
    pub fn with_capacity(n: usize) -> Self {
        Self::check_capacity(n);
        Self::new()
    }
    pub fn push(&mut self, v: T) {
        assert!(self.len < T::CAP, "MVec model capacity exceeded");
        T::put(&mut self.store, self.len, v);
        self.len += 1;
    }
    pub fn get(&self, idx: usize) -> Option<&T> {
        if idx < self.len { T::at(&self.store, idx) } else { None }
    }
    pub fn first(&self) -> Option<&T> {
        self.get(0)
    }
    pub fn last(&self) -> Option<&T> {
        if self.len == 0 { None } else { self.get(self.len - 1) }
    }
    pub fn iter(&self) -> MVecIter<'_, T> {
        MVecIter { v: self, pos: 0 }
    }
    /// `<[T]>::windows`: overlapping windows of `n` consecutive elements (indexable like slices)
    pub fn windows(&self, n: usize) -> Windows<'_, T> {
        assert!(n >= 1, "window size must be non-zero");
        Windows { v: self, n, pos: 0 }
    }
    /// `sort_unstable_by_key`: selection sort into a fresh store (at most `CAP` elements)
    pub fn sort_unstable_by_key<K: Ord, F: FnMut(&T) -> K>(&mut self, mut f: F)
    where
        T: Clone,
    {
        let mut out = T::new_store();
        let mut used = [false; 64];
        let mut p = 0;
        while p < T::CAP {
            if p < self.len {
                let mut best: Option<usize> = None;
                let mut i = 0;
                while i < T::CAP {
                    if i < self.len && !used[i] {
                        let better = match best {
                            None => true,
                            Some(b) => f(T::at(&self.store, i).unwrap()) < f(T::at(&self.store, b).unwrap()),
                        };
                        if better {
                            best = Some(i);
                        }
                    }
                    i += 1;
                }
                let b = best.unwrap();
                used[b] = true;
                T::put(&mut out, p, T::at(&self.store, b).unwrap().clone());
            }
            p += 1;
        }
        self.store = out;
    }
}

impl<T: Elem> std::ops::Index<usize> for MVec<T> {
    type Output = T;
    fn index(&self, idx: usize) -> &T {
        match self.get(idx) {
            Some(v) => v,
            None => panic!("MVec index out of bounds"),
        }
    }
}

/// `&v[..]` in sliced code: the model has no slice form, the "full range" is the vector itself.
impl<T: Elem> std::ops::Index<std::ops::RangeFull> for MVec<T> {
    type Output = MVec<T>;
    fn index(&self, _: std::ops::RangeFull) -> &MVec<T> {
        self
    }
}

pub struct Windows<'a, T: Elem> {
    v: &'a MVec<T>,
    n: usize,
    pos: usize,
}
pub struct Window<'a, T: Elem> {
    v: &'a MVec<T>,
    start: usize,
    n: usize,
}
impl<'a, T: Elem> Iterator for Windows<'a, T> {
    type Item = Window<'a, T>;
    fn next(&mut self) -> Option<Window<'a, T>> {
        if self.pos + self.n <= self.v.len {
            let w = Window { v: self.v, start: self.pos, n: self.n };
            self.pos += 1;
            Some(w)
        } else {
            None
        }
    }
}
impl<'a, T: Elem> std::ops::Index<usize> for Window<'a, T> {
    type Output = T;
    fn index(&self, i: usize) -> &T {
        assert!(i < self.n, "window index out of bounds");
        &self.v[self.start + i]
    }
}
impl<'a, T: Elem> Window<'a, T> {
    pub fn len(&self) -> usize {
        self.n
    }
}

pub struct MVecIter<'a, T: Elem> {
    v: &'a MVec<T>,
    pos: usize,
}
impl<'a, T: Elem> Iterator for MVecIter<'a, T> {
    type Item = &'a T;
    fn next(&mut self) -> Option<&'a T> {
        let r = self.v.get(self.pos);
        if r.is_some() {
            self.pos += 1;
        }
        r
    }
}
impl<'a, T: Elem> IntoIterator for &'a MVec<T> {
    type Item = &'a T;
    type IntoIter = MVecIter<'a, T>;
    fn into_iter(self) -> MVecIter<'a, T> {
        self.iter()
    }
}
impl<T: Elem> FromIterator<T> for MVec<T> {
    fn from_iter<I: IntoIterator<Item = T>>(it: I) -> Self {
        let mut v = MVec::new();
        for x in it {
            v.push(x);
        }
        v
    }
}
impl<T: Elem> Default for MVec<T> {
    fn default() -> Self {
        Self::new()
    }
}
impl<T: Elem + Clone> Clone for MVec<T> {
    fn clone(&self) -> Self {
        let mut out = MVec::new();
        let mut i = 0;
        while i < T::CAP {
            if i < self.len {
                if let Some(x) = T::at(&self.store, i) {
                    T::put(&mut out.store, i, x.clone());
                }
            }
            i += 1;
        }
        out.len = self.len;
        out
    }
}

impl TryFrom<MVec<u8>> for [u8; 32] {
    type Error = ();
    fn try_from(v: MVec<u8>) -> Result<[u8; 32], ()> {
        if v.len != 32 {
            return Err(());
        }
        let mut out = [0u8; 32];
        let mut i = 0;
        while i < 32 {
            if let Some(b) = v.store[i] {
                out[i] = b;
            }
            i += 1;
        }
        Ok(out)
    }
}

// ------------------------------------------------------------------------------------------------
// protobuf message models (same fields and accessors as the prost-generated types)
// ------------------------------------------------------------------------------------------------
pub mod pb {
    use super::MVec;
    pub use celestia_proto::p2p::pb::StatusCode;

    pub mod header_request {
        use super::MVec;
        pub enum Data {
            Origin(u64),
            Hash(MVec<u8>),
        }
    }

    pub struct HeaderRequest {
        pub amount: u64,
        pub data: Option<header_request::Data>,
    }

    pub struct HeaderResponse {
        pub body: MVec<super::EncodedHeader>,
        pub status_code: i32,
    }

    impl HeaderResponse {
        /// Same as the prost-generated getter: unknown values fall back to the default variant.
        pub fn status_code(&self) -> StatusCode {
            StatusCode::try_from(self.status_code).unwrap_or(StatusCode::default())
        }
    }
}
