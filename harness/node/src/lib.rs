//! Modes B + C harnesses for `lumina-node` code.
//!
//! `generated/` is produced on every run by /verif/vlib/slicegen*.py from /repo's current
//! sources: `block_ranges.rs` is a verbatim copy of the whole file, the `*_slice.rs` files hold
//! items (functions, impl blocks, constants) copied byte-for-byte out of the named /repo file.
#![allow(unused, dead_code)]

#[path = "generated/block_ranges.rs"]
pub mod block_ranges;

#[cfg(test)]
pub mod test_utils {
    use crate::block_ranges::{BlockRange, BlockRanges};
    pub fn new_block_ranges<const N: usize>(ranges: [BlockRange; N]) -> BlockRanges {
        BlockRanges::from_vec(ranges.into_iter().collect()).expect("invalid BlockRanges")
    }
}

#[cfg(kani)]
pub mod common;
#[cfg(all(kani, feature = "c24"))]
mod c24;
#[cfg(kani)]
pub mod hx;
#[cfg(all(kani, feature = "c29"))]
mod c29;
#[cfg(kani)]
pub mod models;
#[cfg(all(kani, feature = "c13"))]
mod c13;
#[cfg(all(kani, feature = "c27"))]
mod c27;
#[cfg(all(kani, feature = "c36"))]
mod c36;
#[cfg(all(kani, feature = "c35"))]
mod c35;
#[cfg(all(kani, feature = "c25"))]
mod c25;
#[cfg(all(kani, feature = "c03"))]
mod c03;
#[cfg(all(kani, feature = "c28"))]
mod c28;
#[cfg(all(kani, feature = "c30"))]
mod c30;
#[cfg(all(kani, feature = "c30r"))]
mod c30r;
#[cfg(all(kani, feature = "c16"))]
mod c16;
#[cfg(all(kani, feature = "c26"))]
mod c26;
#[cfg(all(kani, feature = "c12"))]
mod c12;
#[cfg(all(kani, feature = "c02"))]
mod c02;
#[cfg(all(kani, feature = "c20"))]
mod c20;
#[cfg(all(kani, feature = "c06"))]
mod c06;
#[cfg(all(kani, feature = "c01"))]
mod c01;
#[cfg(all(kani, feature = "c34"))]
mod c34;
#[cfg(all(kani, feature = "c39"))]
mod c39;
