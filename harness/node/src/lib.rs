//! Modes B + C harnesses for `lumina-node` code.
//!
//! `generated/` is produced on every run by /verif/vlib/slicegen*.py from /repo's current
//! sources: `block_ranges.rs` is a verbatim copy of the whole file, the `*_slice.rs` files hold
//! items (functions, impl blocks, constants) copied byte-for-byte out of the named /repo file.
#![allow(unused, dead_code)]

#[path = "generated/block_ranges.rs"]
pub mod block_ranges;

#[cfg(test)]
pub mod test_utils {
    use crate::block_ranges::{BlockRange, BlockRanges};
    pub fn new_block_ranges<const N: usize>(ranges: [BlockRange; N]) -> BlockRanges {
        BlockRanges::from_vec(ranges.into_iter().collect()).expect("invalid BlockRanges")
    }
}

#[cfg(kani)]
pub mod common;
#[cfg(kani)]
mod c24;
#[cfg(kani)]
pub mod hx;
#[cfg(kani)]
mod c29;
#[cfg(kani)]
pub mod models;
#[cfg(kani)]
mod c13;
#[cfg(kani)]
mod c27;
#[cfg(kani)]
mod c36;
#[cfg(kani)]
mod c35;
#[cfg(kani)]
mod c25;
#[cfg(kani)]
mod c03;
#[cfg(kani)]
mod c28;
#[cfg(kani)]
mod c30;
#[cfg(kani)]
mod c16;
#[cfg(kani)]
mod c26;
#[cfg(kani)]
mod c12;
#[cfg(kani)]
mod c02;
#[cfg(kani)]
mod c20;
#[cfg(kani)]
mod c06;
#[cfg(kani)]
mod c01;
#[cfg(kani)]
mod c34;
#[cfg(kani)]
mod c39;
