//! Bitset model of `BlockRanges` over heights 1..=12 (bit h set <=> height h is a member).
//!
//! Used by the actor-code slices (pruner, syncer), where executing the real range arithmetic in
//! every step is out of reach. Its use is compositional: the C17/C18 suites decide (bounded) that
//! each real `BlockRanges` operation returns what the same SET operation returns; this model
//! implements exactly those set operations. `partitions` returns ANY balanced partition (sizes
//! differ by at most one), which is the contract C17 establishes for the real one.
use std::ops::RangeInclusive;

pub const MAXH: u64 = 12;
pub type BlockRange = RangeInclusive<u64>;

#[derive(Clone, Copy, PartialEq, Debug, Default)]
pub struct BlockRanges(pub u16);

fn bit(h: u64) -> u16 {
    if h >= 1 && h <= MAXH { 1u16 << h } else { 0 }
}

fn mask(r: &BlockRange) -> u16 {
    let mut m = 0u16;
    let mut h = 1;
    while h <= MAXH {
        if *r.start() <= h && h <= *r.end() {
            m |= 1 << h;
        }
        h += 1;
    }
    m
}

#[derive(Debug, PartialEq)]
pub struct BlockRangesError;

impl BlockRanges {
    pub fn new() -> Self {
        BlockRanges(0)
    }
    /// The contract C18 decides for the real `check_insertion_constraints`: Ok exactly for a
    /// valid range sharing no height with the set that is the first range, lies above everything,
    /// or touches a member; the flags say whether the heights just below / just above are members.
    pub fn check_insertion_constraints(&self, r: impl std::borrow::Borrow<BlockRange>) -> Result<(bool, bool), BlockRangesError> {
        let r = r.borrow();
        let (a, e) = (*r.start(), *r.end());
        if !(a >= 1 && a <= e) {
            return Err(BlockRangesError);
        }
        assert!(e <= MAXH, "bitset BlockRanges model: height above the modelled universe");
        if self.0 & mask(r) != 0 {
            return Err(BlockRangesError);
        }
        let below = a > 1 && self.contains(a - 1);
        let above = self.contains(e + 1);
        let above_all = match self.head() {
            None => true,
            Some(h) => a > h,
        };
        if above_all || below || above { Ok((below, above)) } else { Err(BlockRangesError) }
    }
    pub fn any() -> Self {
        let b: u16 = kani::any();
        kani::assume(b & 1 == 0 && b < (1 << (MAXH + 1)));
        BlockRanges(b)
    }
    pub fn contains(&self, h: u64) -> bool {
        self.0 & bit(h) != 0
    }
    pub fn len(&self) -> u64 {
        let mut n = 0;
        let mut h = 1;
        while h <= MAXH {
            if self.contains(h) {
                n += 1;
            }
            h += 1;
        }
        n
    }
    pub fn is_empty(&self) -> bool {
        self.0 == 0
    }
    pub fn head(&self) -> Option<u64> {
        let mut h = MAXH;
        while h >= 1 {
            if self.contains(h) {
                return Some(h);
            }
            h -= 1;
        }
        None
    }
    pub fn tail(&self) -> Option<u64> {
        let mut h = 1;
        while h <= MAXH {
            if self.contains(h) {
                return Some(h);
            }
            h += 1;
        }
        None
    }
    pub fn left_of(&self, x: u64) -> Option<u64> {
        let mut h = MAXH;
        while h >= 1 {
            if h < x && self.contains(h) {
                return Some(h);
            }
            h -= 1;
        }
        None
    }
    pub fn right_of(&self, x: u64) -> Option<u64> {
        let mut h = 1;
        while h <= MAXH {
            if h > x && self.contains(h) {
                return Some(h);
            }
            h += 1;
        }
        None
    }
    pub fn pop_head(&mut self) -> Option<u64> {
        let h = self.head()?;
        self.0 &= !bit(h);
        Some(h)
    }
    pub fn pop_tail(&mut self) -> Option<u64> {
        let h = self.tail()?;
        self.0 &= !bit(h);
        Some(h)
    }
    pub fn insert_relaxed(&mut self, r: impl std::borrow::Borrow<BlockRange>) -> Result<(), ()> {
        let r = r.borrow();
        if !(*r.start() >= 1 && r.start() <= r.end()) {
            return Err(());
        }
        assert!(*r.end() <= MAXH, "bitset BlockRanges model: height above the modelled universe");
        self.0 |= mask(r);
        Ok(())
    }
    pub fn remove_relaxed(&mut self, r: impl std::borrow::Borrow<BlockRange>) -> Result<(), ()> {
        let r = r.borrow();
        if !(*r.start() >= 1 && r.start() <= r.end()) {
            return Err(());
        }
        self.0 &= !mask(r);
        Ok(())
    }
    /// the `limit` highest members
    pub fn headn(&self, limit: u64) -> BlockRanges {
        let mut out = 0u16;
        let mut n = 0;
        let mut h = MAXH;
        while h >= 1 {
            if n < limit && self.contains(h) {
                out |= bit(h);
                n += 1;
            }
            h -= 1;
        }
        BlockRanges(out)
    }
    /// members that start or end a maximal run
    pub fn edges(&self) -> BlockRanges {
        let mut out = 0u16;
        let mut h = 1;
        while h <= MAXH {
            if self.contains(h) && (!self.contains(h - 1) || !self.contains(h + 1)) {
                out |= bit(h);
            }
            h += 1;
        }
        BlockRanges(out)
    }
    /// ANY balanced partition `(left, middle, right)`: left < middle < right, sizes differ by <= 1.
    pub fn partitions(&self) -> Option<(BlockRanges, u64, BlockRanges)> {
        if self.0 == 0 {
            return None;
        }
        let m: u64 = kani::any();
        kani::assume(m >= 1 && m <= MAXH && self.contains(m));
        let below = (1u16 << m) - 1;
        let left = BlockRanges(self.0 & below);
        let right = BlockRanges(self.0 & !below & !bit(m));
        let (l, r) = (left.len(), right.len());
        kani::assume(l <= r + 1 && r <= l + 1);
        Some((left, m, right))
    }
    pub fn to_owned(&self) -> BlockRanges {
        *self
    }
    /// iteration in ascending order (the real type iterates by `pop_tail`)
    pub fn rev(self) -> RevIter {
        RevIter(self)
    }
}

impl Iterator for BlockRanges {
    type Item = u64;
    fn next(&mut self) -> Option<u64> {
        self.pop_tail()
    }
}
impl DoubleEndedIterator for BlockRanges {
    fn next_back(&mut self) -> Option<u64> {
        self.pop_head()
    }
}
pub struct RevIter(BlockRanges);
impl Iterator for RevIter {
    type Item = u64;
    fn next(&mut self) -> Option<u64> {
        self.0.pop_head()
    }
}

impl std::ops::Add<&BlockRanges> for BlockRanges {
    type Output = BlockRanges;
    fn add(self, o: &BlockRanges) -> BlockRanges {
        BlockRanges(self.0 | o.0)
    }
}
impl std::ops::Add for BlockRanges {
    type Output = BlockRanges;
    fn add(self, o: BlockRanges) -> BlockRanges {
        BlockRanges(self.0 | o.0)
    }
}
impl std::ops::Sub for BlockRanges {
    type Output = BlockRanges;
    fn sub(self, o: BlockRanges) -> BlockRanges {
        BlockRanges(self.0 & !o.0)
    }
}
impl std::ops::Sub<&BlockRanges> for BlockRanges {
    type Output = BlockRanges;
    fn sub(self, o: &BlockRanges) -> BlockRanges {
        BlockRanges(self.0 & !o.0)
    }
}
impl std::ops::BitAnd for BlockRanges {
    type Output = BlockRanges;
    fn bitand(self, o: BlockRanges) -> BlockRanges {
        BlockRanges(self.0 & o.0)
    }
}
impl std::ops::BitOr for BlockRanges {
    type Output = BlockRanges;
    fn bitor(self, o: BlockRanges) -> BlockRanges {
        BlockRanges(self.0 | o.0)
    }
}
impl std::ops::Not for BlockRanges {
    type Output = BlockRanges;
    fn not(self) -> BlockRanges {
        // complement within the modelled universe 1..=MAXH
        BlockRanges(!self.0 & (((1u32 << (MAXH + 1)) - 2) as u16))
    }
}
impl std::ops::BitAnd<&BlockRanges> for BlockRanges {
    type Output = BlockRanges;
    fn bitand(self, o: &BlockRanges) -> BlockRanges {
        BlockRanges(self.0 & o.0)
    }
}
impl std::ops::BitOr<&BlockRanges> for BlockRanges {
    type Output = BlockRanges;
    fn bitor(self, o: &BlockRanges) -> BlockRanges {
        BlockRanges(self.0 | o.0)
    }
}
impl TryFrom<BlockRange> for BlockRanges {
    type Error = ();
    fn try_from(r: BlockRange) -> Result<BlockRanges, ()> {
        let mut b = BlockRanges::new();
        b.insert_relaxed(r)?;
        Ok(b)
    }
}
