//! Ideal (collision-free) hash: the assumption the Merkle properties rest on, made executable.
//!
//! `oracle(kind, input)` is a function: equal (kind, input) pairs get equal outputs, and a pair
//! never seen before gets an output that differs from every earlier output. Outputs are
//! deterministic identifiers (`n`-th distinct input -> id n), which exhibits every pattern of
//! equalities/inequalities an injective function can produce. At most `CAP` distinct inputs of
//! at most `MAXIN` (64) bytes per execution; more is an assertion failure (reported, not ignored).
//!
//! `kind` is tendermint's RFC 6962 domain separation (0x00 leaf, 0x01 inner node), which the real
//! `MerkleHash` impl prepends before hashing.
pub const CAP: usize = 16;
/// inputs are at most 64 bytes (two 32-byte child hashes); they are packed into 8 words so that
/// one table comparison is 8 word comparisons instead of 64 byte comparisons
pub const MAXIN: usize = 64;
const WORDS: usize = MAXIN / 8;

#[derive(Clone, Copy)]
struct Entry {
    kind: u8,
    len: usize,
    w: [u64; WORDS],
}

static mut TABLE: [Entry; CAP] = [Entry { kind: 0, len: 0, w: [0; WORDS] }; CAP];
static mut N: usize = 0;

pub fn reset() {
    unsafe { N = 0 };
}

pub fn calls() -> usize {
    unsafe { N }
}

fn id_to_hash(id: usize) -> [u8; 32] {
    let mut h = [0xA5u8; 32];
    h[0] = 0x1D;
    h[1] = (id >> 8) as u8;
    h[2] = id as u8;
    h
}

pub fn oracle(kind: u8, parts: &[&[u8]]) -> [u8; 32] {
    let mut e = Entry { kind, len: 0, w: [0; WORDS] };
    let mut p = 0;
    while p < parts.len() {
        let part = parts[p];
        let mut i = 0;
        while i < part.len() {
            assert!(e.len < MAXIN, "ideal hash model: input longer than MAXIN");
            let (wi, sh) = (e.len / 8, (e.len % 8) * 8);
            e.w[wi] |= (part[i] as u64) << sh;
            e.len += 1;
            i += 1;
        }
        p += 1;
    }
    unsafe {
        let mut k = 0;
        while k < CAP {
            if k < N {
                let t = &TABLE[k];
                let mut same = t.kind == e.kind && t.len == e.len;
                let mut i = 0;
                while i < WORDS {
                    same = same && t.w[i] == e.w[i];
                    i += 1;
                }
                if same {
                    return id_to_hash(k + 1);
                }
            }
            k += 1;
        }
        assert!(N < CAP, "ideal hash model: more than CAP distinct inputs");
        TABLE[N] = e;
        N += 1;
        id_to_hash(N)
    }
}

/// Stand-in for `tendermint::crypto::default::Sha256` used through `tendermint::merkle::MerkleHash`.
#[derive(Default)]
pub struct Sha256;

pub type MerkleOutput = [u8; 32];

impl Sha256 {
    pub fn empty_hash(&mut self) -> MerkleOutput {
        oracle(2, &[])
    }
    pub fn leaf_hash(&mut self, bytes: &[u8]) -> MerkleOutput {
        oracle(0, &[bytes])
    }
    pub fn inner_hash(&mut self, left: MerkleOutput, right: MerkleOutput) -> MerkleOutput {
        oracle(1, &[&left, &right])
    }
}
