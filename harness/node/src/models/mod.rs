//! Models shared by several Mode C suites.
pub mod ideal_hash;
pub mod bitranges;
