//! C03 (arithmetic part): the voting-power threshold of a trust level.
use celestia_types::trust_level::{TrustLevelRatio, DEFAULT_TRUST_LEVEL};

// NOTE: the fully general identity `voting_power_needed(n, d, t) == floor(n*t/d)` for free 64-bit
// n, d, t is a symbolic 64x64 multiplication followed by a 128-bit division; both SAT back ends
// time out on it (measured, 600 s each). The two levels the code base uses (2/3 and the default
// 1/3) are decided for every total below, and the error cases separately.

// @verif prop=C03 tier=quick shape="denominator 0 or an overflowing product (numerator, total >= 2^32), otherwise free u64" funcs="TrustLevelRatio::voting_power_needed"
#[kani::proof]
#[kani::stub(core::fmt::write, crate::stubs::fmt_write)]
fn c03_threshold_error_cases() {
    let (num, den, total): (u64, u64, u64) = kani::any();
    let zero_den: bool = kani::any();
    if zero_den {
        kani::assume(den == 0);
    } else {
        kani::assume(num >= (1 << 32) && total >= (1 << 32));
    }
    let r = TrustLevelRatio::new(num, den).voting_power_needed(total);
    assert!(r.is_err(), "C03 voting_power_needed: no error for a zero denominator / overflowing product");
    kani::cover!(zero_den, "witness: zero denominator");
    kani::cover!(!zero_den, "witness: overflow");
    std::mem::forget(r);
}

fn strict_majority(num: u64, den: u64) {
    // accept iff tallied > needed  <=>  den * tallied > num * total  (strictly more than num/den)
    let (total, tallied): (u64, u64) = kani::any();
    kani::assume(total <= i64::MAX as u64 / 2 && tallied <= total);
    let needed = match TrustLevelRatio::new(num, den).voting_power_needed(total) {
        Ok(v) => v,
        Err(e) => {
            std::mem::forget(e);
            assert!(false, "C03: threshold not computable for a tendermint-sized total");
            return;
        }
    };
    let accept = tallied > needed;
    let strictly_more = (den as u128) * (tallied as u128) > (num as u128) * (total as u128);
    assert!(accept == strictly_more, "C03: 'tallied > needed' is not 'strictly more than the fraction of the total'");
    kani::cover!(accept && tallied < total, "witness: accepted below the total");
}

// @verif prop=C03 tier=quick shape="two-thirds level: total free in 0..=i64::MAX/2, tallied free in 0..=total" funcs="TrustLevelRatio::voting_power_needed"
#[kani::proof]
#[kani::stub(core::fmt::write, crate::stubs::fmt_write)]
fn c03_two_thirds_is_strict() {
    strict_majority(2, 3);
}

// @verif prop=C03 tier=quick shape="default one-third level: total free in 0..=i64::MAX/2, tallied free in 0..=total" funcs="TrustLevelRatio::voting_power_needed,DEFAULT_TRUST_LEVEL"
#[kani::proof]
#[kani::stub(core::fmt::write, crate::stubs::fmt_write)]
fn c03_one_third_is_strict() {
    assert!(DEFAULT_TRUST_LEVEL.numerator() == 1 && DEFAULT_TRUST_LEVEL.denominator() == 3, "C03: default trust level is not 1/3");
    strict_majority(1, 3);
}
