//! C11: blob share encoding round-trips and is sized correctly.
use celestia_types::consts::appconsts::{self, AppVersion};
use celestia_types::nmt::Namespace;
use celestia_types::state::{AccAddress, Id};
use celestia_types::{Blob, Commitment, Share};

/// Reference share count, from the share format itself: a share is 512 bytes; every share
/// spends 29 bytes on the namespace and 1 on the info byte; the first share additionally
/// spends 4 on the sequence length and, for share version 1, 20 on the signer.
fn ref_shares(len: usize, has_signer: bool) -> usize {
    let first = 512 - 29 - 1 - 4 - if has_signer { 20 } else { 0 };
    let cont = 512 - 29 - 1;
    if len <= first {
        1
    } else {
        let rest = len - first;
        1 + rest / cont + if rest % cont != 0 { 1 } else { 0 }
    }
}

fn user_namespace() -> Namespace {
    // version 0, id = 0^18 || 10 user bytes with a non-zero byte above the reserved range
    let mut id = [0u8; 10];
    id[0] = 1;
    id[9] = kani::any();
    Namespace::const_v0(id)
}

fn blob_with_len(len: usize, signer: bool) -> Blob {
    // contents are irrelevant for sizes: zero-filled data of the symbolic length
    let mut data: Vec<u8> = Vec::with_capacity(len);
    unsafe { data.set_len(len) };
    Blob {
        namespace: user_namespace(),
        data,
        share_version: if signer { appconsts::SHARE_VERSION_ONE } else { appconsts::SHARE_VERSION_ZERO },
        commitment: Commitment::new([0u8; 32]),
        index: None,
        signer: if signer { Some(AccAddress::new(Id::new([7u8; 20]))) } else { None },
    }
}

fn shares_len_matches(signer: bool) {
    let len: usize = kani::any();
    kani::assume(len >= 1 && len <= (1usize << 32));
    let blob = blob_with_len(len, signer);
    let got = blob.shares_len();
    assert!(got == ref_shares(len, signer), "C11 shares_len: reported share count differs from the number of shares the format needs");
    kani::cover!(len > 458 && len <= 478, "witness: length in the 20-byte signer window");
    kani::cover!(len > 478 + 482, "witness: three or more shares");
    std::mem::forget(blob);
}

// @verif prop=C11 tier=quick shape="blob length free in 1..=2^32 (data never read), share version 1 with signer" funcs="Blob::shares_len,shares_needed_for_blob"
#[kani::proof]
#[kani::unwind(2)]
fn c11_shares_len_signed() {
    shares_len_matches(true);
}

// @verif prop=C11 tier=quick shape="blob length free in 1..=2^32 (data never read), share version 0 without signer" funcs="Blob::shares_len,shares_needed_for_blob"
#[kani::proof]
#[kani::unwind(2)]
fn c11_shares_len_unsigned() {
    shares_len_matches(false);
}

// NOTE (measured, stated as outside the claim): executing `Blob::to_shares` / `Blob::reconstruct`
// under CBMC exhausts the 14 GB cap even for ONE blob of a concrete 479-byte length with three
// symbolic bytes (BytesMut + 512-byte share buffers + Share::from_raw). The split/reconstruct
// round-trip is therefore not decided here; what is decided is the share-count arithmetic that
// `shares_len` and `reconstruct` (through `shares_needed_for_blob`) rely on.
