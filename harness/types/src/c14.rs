//! C14: namespaces are validated, ordered and round-trip.
use celestia_types::nmt::{Namespace, NS_SIZE};
use std::cmp::Ordering;

/// Reference validity predicate of a 29-byte namespace, straight from the property statement.
fn valid29(b: &[u8; 29]) -> bool {
    let mut zeros18 = true;
    let mut i = 1;
    while i < 19 {
        zeros18 = zeros18 && b[i] == 0;
        i += 1;
    }
    let mut ff27 = true;
    let mut i = 1;
    while i < 28 {
        ff27 = ff27 && b[i] == 0xff;
        i += 1;
    }
    (b[0] == 0 && zeros18) || (b[0] == 255 && ff27)
}

/// Reference lexicographic comparison of two 29-byte strings.
fn lex(a: &[u8; 29], b: &[u8; 29]) -> Ordering {
    let mut i = 0;
    while i < 29 {
        if a[i] < b[i] {
            return Ordering::Less;
        }
        if a[i] > b[i] {
            return Ordering::Greater;
        }
        i += 1;
    }
    Ordering::Equal
}

fn any_valid() -> ([u8; 29], Namespace) {
    let b: [u8; 29] = kani::any();
    kani::assume(valid29(&b));
    match Namespace::from_raw(&b) {
        Ok(ns) => (b, ns),
        Err(_) => {
            assert!(false, "C14 from_raw: rejected a valid namespace");
            unreachable!()
        }
    }
}

// @verif prop=C14 tier=quick shape="every buffer of length 0..=40 with free bytes" funcs="Namespace::from_raw,Namespace::new,Namespace::new_v0,Namespace::new_v255,Namespace::const_v255,Namespace::as_bytes"
#[kani::proof]
#[kani::unwind(41)]
fn c14_from_raw_all_buffers() {
    let buf: [u8; 40] = kani::any();
    let len: usize = kani::any();
    kani::assume(len <= 40);
    let res = Namespace::from_raw(&buf[..len]);
    let mut b29 = [0u8; 29];
    let mut i = 0;
    while i < 29 {
        b29[i] = buf[i];
        i += 1;
    }
    let want = len == 29 && valid29(&b29);
    assert!(res.is_ok() == want, "C14 from_raw: accepts exactly the valid 29-byte namespaces");
    if let Ok(ns) = res {
        let out = ns.as_bytes();
        assert!(out.len() == NS_SIZE, "C14 as_bytes: length");
        let mut j = 0;
        while j < 29 {
            assert!(out[j] == b29[j], "C14 from_raw/as_bytes: byte form does not round-trip");
            j += 1;
        }
        assert!(ns.version() == b29[0], "C14 version");
        assert!(ns.id().len() == 28 && ns.id()[0] == b29[1] && ns.id()[27] == b29[28], "C14 id");
    }
    kani::cover!(want && b29[0] == 0, "witness: v0 accepted");
    kani::cover!(want && b29[0] == 255, "witness: v255 accepted");
    kani::cover!(len == 29 && !want, "witness: 29 bytes rejected");
}

// @verif prop=C14 tier=quick shape="version free u8, id slice of length 0..=40 with free bytes" funcs="Namespace::new,Namespace::new_v0,Namespace::new_v255"
#[kani::proof]
#[kani::unwind(41)]
fn c14_new_all_versions_and_ids() {
    let version: u8 = kani::any();
    let idbuf: [u8; 40] = kani::any();
    let len: usize = kani::any();
    kani::assume(len <= 40);
    let res = Namespace::new(version, &idbuf[..len]);
    // reference
    let mut zeros18 = true;
    let mut i = 0;
    while i < 18 {
        zeros18 = zeros18 && idbuf[i] == 0;
        i += 1;
    }
    let mut ff27 = true;
    let mut i = 0;
    while i < 27 {
        ff27 = ff27 && idbuf[i] == 0xff;
        i += 1;
    }
    let want = (version == 0 && ((len == 28 && zeros18) || len <= 10)) || (version == 255 && len == 28 && ff27);
    assert!(res.is_ok() == want, "C14 new: accepts exactly the documented (version, id) pairs");
    if let Ok(ns) = res {
        let out = ns.as_bytes();
        assert!(out[0] == version, "C14 new: version byte");
        // the id is right-aligned in the 28 id bytes, left-padded with zeros (only v0 can be shorter)
        let pad = 28 - len;
        let mut j = 0;
        while j < 28 {
            if j < pad {
                assert!(out[1 + j] == 0, "C14 new_v0: short id is not zero-padded on the left");
            } else {
                assert!(out[1 + j] == idbuf[j - pad], "C14 new: id bytes not preserved");
            }
            j += 1;
        }
        // the result is itself a valid raw namespace and from_raw agrees
        let mut raw = [0u8; 29];
        let mut j = 0;
        while j < 29 {
            raw[j] = out[j];
            j += 1;
        }
        assert!(valid29(&raw), "C14 new: constructed an invalid namespace");
        assert!(matches!(Namespace::from_raw(&raw), Ok(x) if x == ns), "C14 new/from_raw disagree");
    }
    kani::cover!(want && version == 0 && len < 10, "witness: short v0 id");
    kani::cover!(want && version == 255, "witness: v255");
    kani::cover!(!want && (version == 0 || version == 255), "witness: rejected id");
}

// @verif prop=C14 tier=quick shape="user id of length 0..=10 with free bytes" funcs="Namespace::new_v0,Namespace::id_v0,Namespace::const_v0"
#[kani::proof]
#[kani::unwind(30)]
fn c14_v0_shorthand_roundtrip() {
    let id: [u8; 10] = kani::any();
    let len: usize = kani::any();
    kani::assume(len <= 10);
    let ns = match Namespace::new_v0(&id[..len]) {
        Ok(ns) => ns,
        Err(_) => {
            assert!(false, "C14 new_v0: rejected an id of at most 10 bytes");
            return;
        }
    };
    let short = match ns.id_v0() {
        Some(s) => s,
        None => {
            assert!(false, "C14 id_v0: None for a version-0 namespace");
            return;
        }
    };
    assert!(short.len() == 10, "C14 id_v0: length");
    let mut padded = [0u8; 10];
    let mut j = 0;
    while j < 10 {
        if j >= 10 - len {
            padded[j] = id[j - (10 - len)];
        }
        assert!(short[j] == padded[j], "C14 id_v0: not the zero-padded id");
        j += 1;
    }
    assert!(matches!(Namespace::new_v0(short), Ok(x) if x == ns), "C14 v0 shorthand does not round-trip");
    assert!(Namespace::const_v0(padded) == ns, "C14 const_v0 disagrees with new_v0");
    kani::cover!(len == 10, "witness: full 10-byte id");
    kani::cover!(len == 0, "witness: empty id");
}

// @verif prop=C14 tier=quick shape="two valid namespaces with free bytes" funcs="<Namespace as Ord>::cmp,<Namespace as PartialOrd>::partial_cmp,<Namespace as PartialEq>::eq,Namespace::from_raw"
#[kani::proof]
#[kani::unwind(30)]
fn c14_order_is_lexicographic() {
    let (a, na) = any_valid();
    let (b, nb) = any_valid();
    let want = lex(&a, &b);
    assert!(na.cmp(&nb) == want, "C14 Ord: not the lexicographic byte order");
    assert!(na.partial_cmp(&nb) == Some(want), "C14 PartialOrd inconsistent with Ord");
    assert!((na == nb) == (want == Ordering::Equal), "C14 Eq inconsistent with byte equality");
    assert!((na < nb) == (want == Ordering::Less), "C14 < inconsistent");
    assert!((na >= nb) == (want != Ordering::Less), "C14 >= inconsistent");
    kani::cover!(want == Ordering::Less && a[0] == b[0], "witness: ordered inside one version");
    kani::cover!(want == Ordering::Equal, "witness: equal");
}

// @verif prop=C14 tier=quick shape="one valid namespace with free bytes" funcs="Namespace::is_reserved,<Namespace as Ord>::cmp"
#[kani::proof]
#[kani::unwind(30)]
fn c14_reserved_exactly() {
    let (a, ns) = any_valid();
    // independent formulation: <= 0x00 || 0^27 || 0xff  or  >= 0xff || 0xff^27 || 0x00
    let max_primary: [u8; 29] = {
        let mut m = [0u8; 29];
        m[28] = 0xff;
        m
    };
    let min_secondary: [u8; 29] = {
        let mut m = [0xffu8; 29];
        m[28] = 0;
        m
    };
    let want = lex(&a, &max_primary) != Ordering::Greater || lex(&a, &min_secondary) != Ordering::Less;
    assert!(ns.is_reserved() == want, "C14 is_reserved: not exactly the two reserved intervals");
    // the named constants are what the statement says they are
    assert!(Namespace::MAX_PRIMARY_RESERVED.as_bytes()[28] == 0xff && Namespace::MAX_PRIMARY_RESERVED.as_bytes()[0] == 0 && Namespace::MAX_PRIMARY_RESERVED.as_bytes()[27] == 0, "C14 MAX_PRIMARY_RESERVED constant");
    assert!(Namespace::MIN_SECONDARY_RESERVED.as_bytes()[28] == 0 && Namespace::MIN_SECONDARY_RESERVED.as_bytes()[0] == 0xff && Namespace::MIN_SECONDARY_RESERVED.as_bytes()[27] == 0xff, "C14 MIN_SECONDARY_RESERVED constant");
    kani::cover!(want && a[0] == 0, "witness: primary reserved");
    kani::cover!(!want, "witness: user namespace");
    kani::cover!(want && a[0] == 255, "witness: secondary reserved");
}

// @verif prop=C14 tier=quick shape="id byte free u8" funcs="Namespace::const_v255,Namespace::new_v255,Namespace::from_raw"
#[kani::proof]
#[kani::unwind(30)]
fn c14_v255_constructors_agree() {
    let id: u8 = kani::any();
    let ns = Namespace::const_v255(id);
    let mut raw = [0xffu8; 29];
    raw[28] = id;
    assert!(matches!(Namespace::from_raw(&raw), Ok(x) if x == ns), "C14 const_v255/from_raw disagree");
    assert!(matches!(Namespace::new_v255(&raw[1..]), Ok(x) if x == ns), "C14 const_v255/new_v255 disagree");
    assert!(ns.id_v0().is_none(), "C14 id_v0: Some for version 255");
    assert!(ns.is_reserved(), "C14: secondary namespace not reserved");
    kani::cover!(id == 0xfe, "witness: tail padding");
}
