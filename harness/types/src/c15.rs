//! C15: Shwap identifiers and CIDs are bijective over valid ids.
use bytes::BytesMut;
use celestia_types::eds::{EdsId, EDS_ID_SIZE};
use celestia_types::namespace_data::{NamespaceDataId, NAMESPACE_DATA_ID_SIZE};
use celestia_types::nmt::Namespace;
use celestia_types::row::{RowId, ROW_ID_CODEC, ROW_ID_MULTIHASH_CODE, ROW_ID_SIZE};
use celestia_types::row_namespace_data::{
    RowNamespaceDataId, ROW_NAMESPACE_DATA_CODEC, ROW_NAMESPACE_DATA_ID_MULTIHASH_CODE,
    ROW_NAMESPACE_DATA_ID_SIZE,
};
use celestia_types::sample::{SampleId, SAMPLE_ID_CODEC, SAMPLE_ID_MULTIHASH_CODE};
// private in the crate; the statement fixes it: 8 (height) + 2 (row) + 2 (column)
const SAMPLE_ID_SIZE: usize = 12;
use cid::CidGeneric;
use multihash::Multihash;

fn be64(b: &[u8]) -> u64 {
    let mut v = 0u64;
    let mut i = 0;
    while i < 8 {
        v = (v << 8) | b[i] as u64;
        i += 1;
    }
    v
}

fn be16(b: &[u8]) -> u16 {
    ((b[0] as u16) << 8) | b[1] as u16
}

/// Reference validity of the 29 namespace bytes starting at `off` (C14's predicate).
fn ns_valid(b: &[u8], off: usize) -> bool {
    let mut zeros18 = true;
    let mut i = 1;
    while i < 19 {
        zeros18 = zeros18 && b[off + i] == 0;
        i += 1;
    }
    let mut ff27 = true;
    let mut i = 1;
    while i < 28 {
        ff27 = ff27 && b[off + i] == 0xff;
        i += 1;
    }
    (b[off] == 0 && zeros18) || (b[off] == 255 && ff27)
}

fn same_bytes(a: &[u8], b: &[u8], n: usize) -> bool {
    let mut ok = a.len() == n;
    let mut i = 0;
    while i < n {
        ok = ok && a[i] == b[i];
        i += 1;
    }
    ok
}

// ---------------------------------------------------------------------------------------------
// byte form: decode accepts exactly the valid encodings, and decode/encode are mutually inverse
// ---------------------------------------------------------------------------------------------

// @verif prop=C15 tier=quick shape="every buffer of length 0..=10 with free bytes" funcs="EdsId::decode,EdsId::encode,EdsId::new,EdsId::block_height"
#[kani::proof]
#[kani::unwind(12)]
fn c15_eds_id_bytes() {
    let buf: [u8; 10] = kani::any();
    let len: usize = kani::any();
    kani::assume(len <= 10);
    let res = EdsId::decode(&buf[..len]);
    let want = len == EDS_ID_SIZE && be64(&buf) != 0;
    assert!(res.is_ok() == want, "C15 EdsId::decode accepts exactly 8 bytes with non-zero height");
    if let Ok(id) = res {
        assert!(id.block_height() == be64(&buf), "C15 EdsId: height");
        let mut out = BytesMut::new();
        id.encode(&mut out);
        assert!(same_bytes(&out, &buf, EDS_ID_SIZE), "C15 EdsId: encode(decode(b)) != b");
        assert!(matches!(EdsId::new(id.block_height()), Ok(x) if x == id), "C15 EdsId::new disagrees with decode");
    }
    let h: u64 = kani::any();
    assert!(EdsId::new(h).is_ok() == (h != 0), "C15 EdsId::new accepts exactly non-zero heights");
    kani::cover!(want, "witness: accepted");
    kani::cover!(len == EDS_ID_SIZE && !want, "witness: zero height rejected");
}

// @verif prop=C15 tier=quick shape="every buffer of length 0..=12 with free bytes" funcs="RowId::decode,RowId::encode,RowId::new,EdsId::decode"
#[kani::proof]
#[kani::unwind(14)]
fn c15_row_id_bytes() {
    let buf: [u8; 12] = kani::any();
    let len: usize = kani::any();
    kani::assume(len <= 12);
    let res = RowId::decode(&buf[..len]);
    let want = len == ROW_ID_SIZE && be64(&buf) != 0;
    assert!(res.is_ok() == want, "C15 RowId::decode accepts exactly 10 bytes with non-zero height");
    if let Ok(id) = res {
        assert!(id.block_height() == be64(&buf) && id.index() == be16(&buf[8..]), "C15 RowId: fields");
        let mut out = BytesMut::new();
        id.encode(&mut out);
        assert!(same_bytes(&out, &buf, ROW_ID_SIZE), "C15 RowId: encode(decode(b)) != b");
        assert!(matches!(RowId::new(id.index(), id.block_height()), Ok(x) if x == id), "C15 RowId::new disagrees with decode");
    }
    let (i, h): (u16, u64) = kani::any();
    assert!(RowId::new(i, h).is_ok() == (h != 0), "C15 RowId::new accepts exactly non-zero heights");
    kani::cover!(want, "witness: accepted");
    kani::cover!(len == ROW_ID_SIZE && !want, "witness: zero height rejected");
}

// @verif prop=C15 tier=quick shape="every buffer of length 0..=14 with free bytes" funcs="SampleId::decode,SampleId::encode,SampleId::new,RowId::decode"
#[kani::proof]
#[kani::unwind(16)]
fn c15_sample_id_bytes() {
    let buf: [u8; 14] = kani::any();
    let len: usize = kani::any();
    kani::assume(len <= 14);
    let res = SampleId::decode(&buf[..len]);
    let want = len == SAMPLE_ID_SIZE && be64(&buf) != 0;
    assert!(res.is_ok() == want, "C15 SampleId::decode accepts exactly 12 bytes with non-zero height");
    if let Ok(id) = res {
        assert!(
            id.block_height() == be64(&buf) && id.row_index() == be16(&buf[8..]) && id.column_index() == be16(&buf[10..]),
            "C15 SampleId: fields"
        );
        let mut out = BytesMut::new();
        id.encode(&mut out);
        assert!(same_bytes(&out, &buf, SAMPLE_ID_SIZE), "C15 SampleId: encode(decode(b)) != b");
        assert!(
            matches!(SampleId::new(id.row_index(), id.column_index(), id.block_height()), Ok(x) if x == id),
            "C15 SampleId::new disagrees with decode"
        );
    }
    let (r, c, h): (u16, u16, u64) = kani::any();
    assert!(SampleId::new(r, c, h).is_ok() == (h != 0), "C15 SampleId::new accepts exactly non-zero heights");
    kani::cover!(want, "witness: accepted");
    kani::cover!(len == SAMPLE_ID_SIZE && !want, "witness: zero height rejected");
}

// @verif prop=C15 tier=quick shape="every buffer of length 0..=41 with free bytes" funcs="RowNamespaceDataId::decode,RowNamespaceDataId::encode,RowNamespaceDataId::new,Namespace::from_raw"
#[kani::proof]
#[kani::unwind(42)]
fn c15_row_namespace_data_id_bytes() {
    let buf: [u8; 41] = kani::any();
    let len: usize = kani::any();
    kani::assume(len <= 41);
    let res = RowNamespaceDataId::decode(&buf[..len]);
    let want = len == ROW_NAMESPACE_DATA_ID_SIZE && be64(&buf) != 0 && ns_valid(&buf, 10);
    assert!(res.is_ok() == want, "C15 RowNamespaceDataId::decode accepts exactly valid 39-byte ids");
    if let Ok(id) = res {
        assert!(id.block_height() == be64(&buf) && id.row_index() == be16(&buf[8..]), "C15 RowNamespaceDataId: fields");
        assert!(same_bytes(id.namespace().as_bytes(), &buf[10..], 29), "C15 RowNamespaceDataId: namespace");
        let mut out = BytesMut::new();
        id.encode(&mut out);
        assert!(same_bytes(&out, &buf, ROW_NAMESPACE_DATA_ID_SIZE), "C15 RowNamespaceDataId: encode(decode(b)) != b");
        assert!(
            matches!(RowNamespaceDataId::new(id.namespace(), id.row_index(), id.block_height()), Ok(x) if x == id),
            "C15 RowNamespaceDataId::new disagrees with decode"
        );
    }
    kani::cover!(want, "witness: accepted");
    kani::cover!(len == ROW_NAMESPACE_DATA_ID_SIZE && be64(&buf) != 0 && !want, "witness: invalid namespace rejected");
}

// @verif prop=C15 tier=quick shape="every buffer of length 0..=39 with free bytes" funcs="NamespaceDataId::decode,NamespaceDataId::encode,NamespaceDataId::new,Namespace::from_raw"
#[kani::proof]
#[kani::unwind(40)]
fn c15_namespace_data_id_bytes() {
    let buf: [u8; 39] = kani::any();
    let len: usize = kani::any();
    kani::assume(len <= 39);
    let res = NamespaceDataId::decode(&buf[..len]);
    let want = len == NAMESPACE_DATA_ID_SIZE && be64(&buf) != 0 && ns_valid(&buf, 8);
    assert!(res.is_ok() == want, "C15 NamespaceDataId::decode accepts exactly valid 37-byte ids");
    if let Ok(id) = res {
        assert!(id.block_height() == be64(&buf), "C15 NamespaceDataId: height");
        assert!(same_bytes(id.namespace().as_bytes(), &buf[8..], 29), "C15 NamespaceDataId: namespace");
        let mut out = BytesMut::new();
        id.encode(&mut out);
        assert!(same_bytes(&out, &buf, NAMESPACE_DATA_ID_SIZE), "C15 NamespaceDataId: encode(decode(b)) != b");
        assert!(
            matches!(NamespaceDataId::new(id.namespace(), id.block_height()), Ok(x) if x == id),
            "C15 NamespaceDataId::new disagrees with decode"
        );
    }
    kani::cover!(want, "witness: accepted");
    kani::cover!(len == NAMESPACE_DATA_ID_SIZE && be64(&buf) != 0 && !want, "witness: invalid namespace rejected");
}

// ---------------------------------------------------------------------------------------------
// CID form
// ---------------------------------------------------------------------------------------------

fn any_cid(max_len: usize) -> (u64, u64, usize, [u8; 64], CidGeneric<64>) {
    let codec: u64 = kani::any();
    let code: u64 = kani::any();
    let len: usize = kani::any();
    kani::assume(len <= max_len);
    let digest: [u8; 64] = kani::any();
    let mh = match Multihash::<64>::wrap(code, &digest[..len]) {
        Ok(mh) => mh,
        Err(e) => {
            // multihash::Error holds an io::Error whose drop glue is recursive: never drop it
            std::mem::forget(e);
            assert!(false, "multihash wrap of <= 64 bytes failed");
            unreachable!()
        }
    };
    (codec, code, len, digest, CidGeneric::new_v1(codec, mh))
}

// @verif prop=C15 tier=quick shape="CID with free codec (u64), free multihash code (u64), digest length 0..=14, free digest bytes; plus every valid id" funcs="<RowId as TryFrom<CidGeneric<64>>>::try_from,<CidGeneric<10> as From<RowId>>::from,RowId::decode"
#[kani::proof]
#[kani::unwind(16)]
#[kani::stub(core::fmt::write, crate::stubs::fmt_write)]
fn c15_row_id_cid() {
    let (codec, code, len, digest, cid) = any_cid(14);
    let res = RowId::try_from(cid);
    let want = codec == ROW_ID_CODEC && code == ROW_ID_MULTIHASH_CODE && len == ROW_ID_SIZE && be64(&digest) != 0;
    assert!(res.is_ok() == want, "C15 RowId from CID: accepts exactly the right codec, code, length and a valid id");
    if let Ok(id) = res {
        assert!(id.block_height() == be64(&digest) && id.index() == be16(&digest[8..]), "C15 RowId from CID: fields");
        let back: CidGeneric<ROW_ID_SIZE> = id.into();
        assert!(back.codec() == ROW_ID_CODEC && back.hash().code() == ROW_ID_MULTIHASH_CODE, "C15 RowId to CID: codec/code");
        assert!(same_bytes(back.hash().digest(), &digest, ROW_ID_SIZE), "C15 RowId: CID(id) digest != original");
        assert!(matches!(RowId::try_from(back), Ok(x) if x == id), "C15 RowId: CID round-trip");
    }
    kani::cover!(want, "witness: accepted");
    kani::cover!(!want && len == ROW_ID_SIZE && codec == ROW_ID_CODEC, "witness: right size and codec rejected");
}

// @verif prop=C15 tier=quick shape="CID with free codec (u64), free multihash code (u64), digest length 0..=16, free digest bytes" funcs="<SampleId as TryFrom<CidGeneric<64>>>::try_from,<CidGeneric<12> as From<SampleId>>::from,SampleId::decode"
#[kani::proof]
#[kani::unwind(18)]
#[kani::stub(core::fmt::write, crate::stubs::fmt_write)]
fn c15_sample_id_cid() {
    let (codec, code, len, digest, cid) = any_cid(16);
    let res = SampleId::try_from(cid);
    let want = codec == SAMPLE_ID_CODEC && code == SAMPLE_ID_MULTIHASH_CODE && len == SAMPLE_ID_SIZE && be64(&digest) != 0;
    assert!(res.is_ok() == want, "C15 SampleId from CID: accepts exactly the right codec, code, length and a valid id");
    if let Ok(id) = res {
        assert!(
            id.block_height() == be64(&digest) && id.row_index() == be16(&digest[8..]) && id.column_index() == be16(&digest[10..]),
            "C15 SampleId from CID: fields"
        );
        let back: CidGeneric<SAMPLE_ID_SIZE> = id.into();
        assert!(back.codec() == SAMPLE_ID_CODEC && back.hash().code() == SAMPLE_ID_MULTIHASH_CODE, "C15 SampleId to CID: codec/code");
        assert!(same_bytes(back.hash().digest(), &digest, SAMPLE_ID_SIZE), "C15 SampleId: CID(id) digest != original");
        assert!(matches!(SampleId::try_from(back), Ok(x) if x == id), "C15 SampleId: CID round-trip");
    }
    kani::cover!(want, "witness: accepted");
    kani::cover!(!want && len == SAMPLE_ID_SIZE && codec == SAMPLE_ID_CODEC, "witness: right size and codec rejected");
}

// @verif prop=C15 tier=thorough shape="CID with free codec (u64), free multihash code (u64), digest length 0..=43, free digest bytes" funcs="<RowNamespaceDataId as TryFrom<CidGeneric<64>>>::try_from,<CidGeneric<39> as From<RowNamespaceDataId>>::from,RowNamespaceDataId::decode"
#[kani::proof]
#[kani::unwind(45)]
#[kani::stub(core::fmt::write, crate::stubs::fmt_write)]
fn c15_row_namespace_data_id_cid() {
    let (codec, code, len, digest, cid) = any_cid(43);
    let res = RowNamespaceDataId::try_from(cid);
    let want = codec == ROW_NAMESPACE_DATA_CODEC
        && code == ROW_NAMESPACE_DATA_ID_MULTIHASH_CODE
        && len == ROW_NAMESPACE_DATA_ID_SIZE
        && be64(&digest) != 0
        && ns_valid(&digest, 10);
    assert!(res.is_ok() == want, "C15 RowNamespaceDataId from CID: accepts exactly the right codec, code, length and a valid id");
    if let Ok(id) = res {
        let back: CidGeneric<ROW_NAMESPACE_DATA_ID_SIZE> = id.into();
        assert!(
            back.codec() == ROW_NAMESPACE_DATA_CODEC && back.hash().code() == ROW_NAMESPACE_DATA_ID_MULTIHASH_CODE,
            "C15 RowNamespaceDataId to CID: codec/code"
        );
        assert!(same_bytes(back.hash().digest(), &digest, ROW_NAMESPACE_DATA_ID_SIZE), "C15 RowNamespaceDataId: CID(id) digest != original");
        assert!(matches!(RowNamespaceDataId::try_from(back), Ok(x) if x == id), "C15 RowNamespaceDataId: CID round-trip");
    }
    kani::cover!(want, "witness: accepted");
    kani::cover!(!want && len == ROW_NAMESPACE_DATA_ID_SIZE && codec == ROW_NAMESPACE_DATA_CODEC && code == ROW_NAMESPACE_DATA_ID_MULTIHASH_CODE && be64(&digest) != 0, "witness: invalid namespace rejected");
}
