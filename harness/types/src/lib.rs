//! Mode A: harnesses that call the real `celestia-types` crate built from /repo/types.
#![allow(unused, dead_code)]

#[cfg(kani)]
mod c14;
#[cfg(kani)]
mod c15;
#[cfg(kani)]
mod c11;
#[cfg(kani)]
mod c03;
pub mod stubs;
