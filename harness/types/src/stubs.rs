//! Stubs shared by the Mode A harnesses (each use is listed in the evidence of the property).

/// `alloc::fmt::format` builds error-message strings (`e.to_string()`, `format!`); string
/// formatting is a state-explosion source and never carries a checked property here.
pub fn fmt_format(_args: std::fmt::Arguments<'_>) -> String {
    String::new()
}

/// `core::fmt::write` is the sink of every `write!`/`to_string()`/`Display` call; error paths of
/// the decoders render their messages through it (`e.to_string()`), which drags the unicode
/// tables and integer formatting into the formula. The rendered text is never part of a property.
pub fn fmt_write(_output: &mut dyn std::fmt::Write, _args: std::fmt::Arguments<'_>) -> std::fmt::Result {
    Ok(())
}
