#!/usr/bin/env python3
"""Prints the prompt given to a fresh mutation sub-agent for property <id> and worktree <dir>."""
import json, sys
pid, wt = sys.argv[1], sys.argv[2]
p = [json.loads(l) for l in open('/verif/properties.jsonl') if json.loads(l)['id'] == pid][0]
print(f"""You are testing how robust a Rust codebase's safety net is. You have your own scratch git worktree of the repository eigerco/lumina (a Celestia data-availability light node in Rust) at {wt} (its `target/` directory is pre-warmed; build with `--offline`, there is no network). Work ONLY inside {wt}; never touch /repo or /verif, and do not read anything under /verif.

Here is a semantic property that the code base is supposed to satisfy:

  Title: {p['title']}
  Statement: {p['statement']}
  Quantified over: {p['quantifier']['text']}
  Relevant files: {', '.join(p['anchors']['files'])}

Your task: produce ONE realistic change (a plausible bug a maintainer could introduce during a refactor or "optimisation", not sabotage that is obvious at a glance) to the non-test source code of the repository that BREAKS this property, while
  (a) the repository still compiles,
  (b) the existing test suite of the affected crate(s) still passes unchanged (run e.g. `cargo test -p <crate> --offline` in {wt}; for the node crate `cargo test -p lumina-node --lib --offline`; for types `cargo test -p celestia-types --offline`), and
  (c) the breakage needs something specific to manifest — an unusual input or boundary value, a particular multi-step sequence of operations, a particular interleaving or fault, or two cooperating sites that each look fine alone — NOT something ordinary use would expose at once.

Also write a demonstration: a small Rust test (preferably a new `#[test]` in a NEW file or appended test module, kept separate from the change itself) or small program that FAILS with your change applied and PASSES on the unchanged code. Do not modify or delete existing tests.

Deliverables, all inside {wt}/_mutant/ (create the directory):
  - patch.diff : `git diff` of the source change ONLY (no demo/test code in it), applicable with `git apply` at the repository root.
  - demo.diff  : a separate diff adding the demonstration test (applicable on top of either the changed or unchanged tree).
  - README.md  : which property clause is broken, what exactly is needed for the breakage to manifest, the exact commands you ran (existing tests + the demo on both trees) and their outcomes.
Before finishing: verify `git stash`/`git apply` style that demo passes WITHOUT patch.diff and fails WITH it, and that the existing tests pass WITH it. Leave the worktree with both diffs applied or not — it does not matter — but the two diff files must be correct. Keep your final answer short: one paragraph describing the change and where it manifests.""")
