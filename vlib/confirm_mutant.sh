#!/bin/bash
# usage: confirm_mutant.sh <worktree> <seeded-id> <cargo test args...>
# Confirms a sub-agent's mutant: demo passes on clean tree, fails with patch; existing tests pass with patch.
wt=$1; id=$2; shift 2
out=/verif/seeded/$id
mkdir -p $out
cp $wt/_mutant/patch.diff $wt/_mutant/demo.diff $out/ 2>/dev/null
cp $wt/_mutant/README.md $out/agent_README.md 2>/dev/null
cd $wt || exit 2
git checkout -q -- . ; git clean -fdq -e target -e _mutant
git apply $out/demo.diff || { echo "demo.diff does not apply"; exit 2; }
cargo test --offline "$@" > $out/log_demo_only.txt 2>&1; a=$?
git apply $out/patch.diff || { echo "patch.diff does not apply"; exit 2; }
cargo test --offline "$@" > $out/log_patch_and_demo.txt 2>&1; b=$?
git checkout -q -- . ; git clean -fdq -e target -e _mutant
git apply $out/patch.diff
cargo test --offline "$@" > $out/log_patch_only.txt 2>&1; c=$?
git checkout -q -- . ; git clean -fdq -e target -e _mutant
echo "demo_only_exit=$a patch_and_demo_exit=$b patch_only_exit=$c" | tee $out/confirm.txt
grep -h "^test result\|^test .* FAILED" $out/log_demo_only.txt $out/log_patch_and_demo.txt $out/log_patch_only.txt | sort | uniq -c | tee -a $out/confirm.txt
