#!/usr/bin/env python3
"""Driver for the solver-based checks of eigerco/lumina.

    ./check <PROPERTY_ID> [--tier quick|thorough] [--only SUBSTR] [--jobs N]
    ./check <PROPERTY_ID> --replay <replay-file>
    ./check --setup            # pre-build the harness workspace (MANIFEST.setup_cmd)
    ./check --list             # list harnesses per property

Every run
  1. copies /verif/harness to /verif/.work/ws (content-compared, so cargo fingerprints survive),
     copies /repo/Cargo.lock next to it and regenerates the item slices from /repo's current
     sources (tools in vlib/slice.py),
  2. runs `cargo kani` (Kani 0.68 / CBMC 6.11) on the harnesses registered for the property and
     tier, with unwinding assertions on (Kani's default), under a memory cap and a per-harness
     timeout,
  3. interprets the result per harness: SUCCESSFUL + all reachability witnesses (kani::cover!)
     satisfied = held; failed checks = candidate violation, which is turned into a concrete
     playback test, replayed natively (cargo kani playback, dev profile and release profile)
     and reported as VIOLATION only if the native run reproduces it; timeouts, OOM, ICE,
     unwinding-assertion failures, unreachable witnesses = inconclusive (exit 2),
  4. writes /verif/evidence/<id>.json.

Exit codes: 0 held on everything explored (known findings are printed as KNOWN-FINDING),
1 violation (stdout line `VIOLATION property=<id> replay=<path>`), 2 inconclusive / harness
needs maintenance.
"""
import argparse
import fcntl
import hashlib
import json
import os
import re
import resource
import shutil
import subprocess
import sys
import time

VERIF = os.path.dirname(os.path.dirname(os.path.abspath(__file__)))
REPO = os.environ.get("VERIF_REPO", "/repo")
HARNESS = os.path.join(VERIF, "harness")
WORK = os.path.join(VERIF, ".work")
WS = os.path.join(WORK, "ws")
EVID = os.path.join(VERIF, "evidence")
REPLAYS = os.path.join(VERIF, "replays")
KNOWN = os.path.join(VERIF, "known_findings.json")
MEM_CAP_GB = int(os.environ.get("VERIF_MEM_GB", "14"))

sys.path.insert(0, os.path.join(VERIF, "vlib"))


def log(*a):
    print(*a, flush=True)


# --------------------------------------------------------------------------------------------
# harness discovery
# --------------------------------------------------------------------------------------------
ANNOT = re.compile(r"^\s*//\s*@verif\s+(.*)$")
KV = re.compile(r'(\w+)=("([^"]*)"|\S+)')


def crates():
    out = []
    for d in sorted(os.listdir(HARNESS)):
        p = os.path.join(HARNESS, d)
        if os.path.isfile(os.path.join(p, "Cargo.toml")) and os.path.isdir(os.path.join(p, "src")):
            name = None
            for line in open(os.path.join(p, "Cargo.toml")):
                m = re.match(r'\s*name\s*=\s*"([^"]+)"', line)
                if m:
                    name = m.group(1)
                    break
            out.append((d, name))
    return out


def discover():
    """Return list of harness dicts parsed from `// @verif` annotations."""
    hs = []
    for d, pkg in crates():
        if pkg.endswith("-native"):
            continue
        src = os.path.join(HARNESS, d, "src")
        for root, _, files in os.walk(src):
            for f in sorted(files):
                if not f.endswith(".rs"):
                    continue
                path = os.path.join(root, f)
                rel = os.path.relpath(path, src)
                mod = rel[:-3].replace(os.sep, "::")
                if mod.endswith("::mod"):
                    mod = mod[:-5]
                lines = open(path).read().split("\n")
                i = 0
                while i < len(lines):
                    m = ANNOT.match(lines[i])
                    if not m:
                        i += 1
                        continue
                    meta = {}
                    for k, v, q in KV.findall(m.group(1)):
                        meta[k] = q if v.startswith('"') else v
                    j = i + 1
                    attrs = []
                    while j < len(lines) and not re.match(r"\s*(pub\s+)?(async\s+)?fn\s+\w+", lines[j]):
                        attrs.append(lines[j])
                        j += 1
                    if j >= len(lines):
                        raise SystemExit(f"annotation without fn in {path}:{i+1}")
                    name = re.match(r"\s*(pub\s+)?(async\s+)?fn\s+(\w+)", lines[j]).group(3)
                    a = "\n".join(attrs)
                    sm = re.search(r"kani::solver\((\w+)\)", a)
                    um = re.search(r"kani::unwind\((\d+)\)", a)
                    stubs = re.findall(r"kani::stub\(([^)]*)\)", a)
                    h = dict(
                        name=name,
                        crate=d,
                        pkg=pkg,
                        module=mod,
                        full=(mod + "::" + name) if mod != "lib" else name,
                        file=os.path.relpath(path, HARNESS),
                        prop=meta.get("prop"),
                        tier=meta.get("tier", "quick"),
                        shape=meta.get("shape", ""),
                        funcs=[x for x in meta.get("funcs", "").split(",") if x],
                        solver=sm.group(1) if sm else "cadical",
                        unwind=int(um.group(1)) if um else None,
                        stubs=[s.split(",")[0].strip() for s in stubs],
                        timeout=meta.get("timeout"),
                        seedgroup=meta.get("seedgroup"),
                    )
                    hs.append(h)
                    i = j + 1
    return hs


# --------------------------------------------------------------------------------------------
# workspace preparation
# --------------------------------------------------------------------------------------------
def sha(path):
    h = hashlib.sha256()
    with open(path, "rb") as f:
        h.update(f.read())
    return h.hexdigest()


def sync_tree(src, dst):
    """Copy src to dst writing only files whose content differs; delete stale files
    (except target/, Cargo.lock and generated files registered by generators)."""
    keep = set()
    for root, dirs, files in os.walk(src):
        dirs[:] = [d for d in dirs if d not in ("target",)]
        rel = os.path.relpath(root, src)
        droot = os.path.join(dst, rel) if rel != "." else dst
        os.makedirs(droot, exist_ok=True)
        for f in files:
            s = os.path.join(root, f)
            d = os.path.join(droot, f)
            keep.add(os.path.normpath(d))
            if not os.path.exists(d) or open(s, "rb").read() != open(d, "rb").read():
                shutil.copyfile(s, d)
    return keep


def write_if_changed(path, content):
    os.makedirs(os.path.dirname(path), exist_ok=True)
    if os.path.exists(path) and open(path).read() == content:
        return False
    with open(path, "w") as f:
        f.write(content)
    return True


def prepare_ws():
    os.makedirs(WS, exist_ok=True)
    keep = sync_tree(HARNESS, WS)
    # generated sources (slices of /repo's current text)
    import slicegen

    gen = slicegen.generate(REPO, WS, write_if_changed)
    keep |= set(os.path.normpath(p) for p in gen)
    # remove stale files in src dirs
    for root, dirs, files in os.walk(WS):
        dirs[:] = [d for d in dirs if d not in ("target",)]
        for f in files:
            p = os.path.normpath(os.path.join(root, f))
            if p in keep:
                continue
            if f in ("Cargo.lock", ".repo_lock_sha"):
                continue
            os.remove(p)
    # lock file: start from /repo's lock whenever that one changed
    rl = os.path.join(REPO, "Cargo.lock")
    mark = os.path.join(WS, ".repo_lock_sha")
    h = hashlib.sha256(sha(rl).encode())
    for root, dirs, files in os.walk(HARNESS):
        dirs.sort()
        for f in sorted(files):
            if f == "Cargo.toml":
                h.update(open(os.path.join(root, f), "rb").read())
    want = h.hexdigest()
    have = open(mark).read().strip() if os.path.exists(mark) else ""
    if want != have or not os.path.exists(os.path.join(WS, "Cargo.lock")):
        shutil.copyfile(rl, os.path.join(WS, "Cargo.lock"))
        with open(mark, "w") as f:
            f.write(want)


def cargo_env():
    env = dict(os.environ)
    env["CARGO_NET_OFFLINE"] = "true"
    env["CARGO_TERM_COLOR"] = "never"
    env.pop("RUSTFLAGS", None)
    env.pop("CARGO_TARGET_DIR", None)
    env.pop("RUSTUP_TOOLCHAIN", None)
    return env


def limit_mem():
    cap = MEM_CAP_GB * 1024 * 1024 * 1024
    resource.setrlimit(resource.RLIMIT_AS, (cap, cap))


def limit_mem_playback():
    # concrete playback makes kani-driver hold CBMC's whole JSON trace in memory (measured: a single
    # 25 GB allocation for a 170 s harness); it runs alone, so it gets a larger cap
    cap = int(os.environ.get("VERIF_PLAYBACK_MEM_GB", "44")) * 1024 * 1024 * 1024
    resource.setrlimit(resource.RLIMIT_AS, (cap, cap))


# --------------------------------------------------------------------------------------------
# running kani
# --------------------------------------------------------------------------------------------
RE_CHECKING = re.compile(r"^(?:Thread (\d+): )?Checking harness (\S+?)\.\.\.")
RE_THREAD = re.compile(r"^Thread (\d+):\s*$")
RE_SUMMARY = re.compile(r"\*\* (\d+) of (\d+) failed(?: \((.*)\))?")
RE_COVER = re.compile(r"\*\* (\d+) of (\d+) cover properties satisfied")
RE_TIME = re.compile(r"Verification Time: ([0-9.]+)s")
RE_FAILED = re.compile(r'^Failed Checks: (.*)$')
RE_FILE = re.compile(r'^\s*File: "([^"]*)", line (\d+), in (.*)$')


def parse_kani_output(text):
    """Split terse kani output into per-harness result dicts."""
    results = {}
    cur_by_thread = {}
    cur = None
    block = None
    lines = text.split("\n")
    for ln in lines:
        m = RE_CHECKING.match(ln)
        if m:
            th = m.group(1) or "0"
            cur_by_thread[th] = m.group(2)
            if m.group(1) is None:
                cur = m.group(2)
                block = results.setdefault(cur, dict(lines=[]))
            continue
        m = RE_THREAD.match(ln)
        if m:
            cur = cur_by_thread.get(m.group(1))
            block = results.setdefault(cur, dict(lines=[]))
            continue
        if ln.startswith("Manual Harness Summary") or ln.startswith("Complete - "):
            block = None
            continue
        if block is not None:
            block["lines"].append(ln)
    out = {}
    for name, b in results.items():
        r = dict(status="unknown", failed=[], checks=0, nfailed=0, covers=(0, 0), time=0.0, notes=[])
        last_fail = None
        for ln in b["lines"]:
            m = RE_SUMMARY.search(ln)
            if m:
                r["nfailed"] = int(m.group(1))
                r["checks"] = int(m.group(2))
                if m.group(3):
                    r["notes"].append(m.group(3))
            m = RE_COVER.search(ln)
            if m:
                r["covers"] = (int(m.group(1)), int(m.group(2)))
            m = RE_TIME.search(ln)
            if m:
                r["time"] = float(m.group(1))
            m = RE_FAILED.match(ln)
            if m:
                last_fail = dict(desc=m.group(1).strip().strip('"'), file="", line=0, func="")
                r["failed"].append(last_fail)
                continue
            m = RE_FILE.match(ln)
            if m and last_fail is not None:
                last_fail.update(file=m.group(1), line=int(m.group(2)), func=m.group(3).strip())
                last_fail = None
            if "VERIFICATION:- SUCCESSFUL" in ln:
                r["status"] = "success"
            elif "VERIFICATION:- FAILED" in ln:
                r["status"] = "failed"
            if "CBMC failed" in ln or "CBMC timed out" in ln or "timed out" in ln.lower() or "out of memory" in ln.lower():
                r["notes"].append(ln.strip())
        r["raw"] = "\n".join(b["lines"])
        out[name] = r
    return out


INCONCLUSIVE_PATTERNS = (
    "unwinding assertion",
    "is not currently supported by Kani",
    "unsupported",
    "recursion unwinding",
)


def classify(r):
    """-> ('held'|'violated'|'inconclusive', reason)"""
    if r["status"] == "success":
        sat, tot = r["covers"]
        if tot > 0 and sat < tot:
            return "inconclusive", f"vacuity: only {sat} of {tot} reachability witnesses satisfied"
        return "held", ""
    if r["status"] == "failed":
        if not r["failed"]:
            return "inconclusive", "FAILED without failed checks (timeout / OOM / solver error): " + "; ".join(r["notes"])
        real = []
        for f in r["failed"]:
            d = f["desc"].lower()
            if any(p in d for p in INCONCLUSIVE_PATTERNS):
                continue
            real.append(f)
        if not real:
            return "inconclusive", "only unwinding/unsupported-construct checks failed: " + "; ".join(
                f["desc"] for f in r["failed"]
            )
        return "violated", ""
    return "inconclusive", "no verdict in kani output (build failure, timeout or crash)"


def crate_features(crate_dir):
    """Feature names declared by a harness crate (one per property module)."""
    p = os.path.join(HARNESS, crate_dir, "Cargo.toml")
    txt = open(p).read()
    m = re.search(r"^\[features\]\n(.*?)(?:\n\[|\Z)", txt, re.S | re.M)
    if not m:
        return set()
    return set(re.findall(r"^(\w+)\s*=", m.group(1), re.M))


def feature_args(harnesses):
    feats = set()
    for h in harnesses:
        avail = crate_features(h["crate"])
        top = h["module"].split("::")[0]
        if top in avail:
            feats.add(top)
    return ["--features", ",".join(sorted(feats))] if feats else []


def run_kani(pkg, harnesses, jobs, timeout_s, logf, extra=()):
    names = []
    for h in harnesses:
        names += ["--harness", h["full"]]
    extra = tuple(extra) + tuple(feature_args(harnesses))
    cmd = [
        "cargo", "kani", "-p", pkg, "--exact", *names,
        "-j", str(jobs), "--output-format", "terse",
        "-Z", "unstable-options", "--harness-timeout", f"{int(timeout_s)}s",
        "-Z", "stubbing", "-Z", "async-lib",
        *extra,
    ]
    t0 = time.time()
    with open(logf, "w") as lf:
        lf.write("$ " + " ".join(cmd) + "\n")
        lf.flush()
        p = subprocess.run(cmd, cwd=WS, env=cargo_env(), stdout=lf, stderr=subprocess.STDOUT,
                           preexec_fn=limit_mem)
    text = open(logf, errors="replace").read()
    return p.returncode, text, time.time() - t0


def build_error(text):
    if re.search(r"^error(\[E\d+\])?:", text, re.M) and "Checking harness" not in text:
        m = re.search(r"^error.*$", text, re.M)
        return m.group(0) if m else "build error"
    return None


# --------------------------------------------------------------------------------------------
# replay
# --------------------------------------------------------------------------------------------
def get_playback_test(h, logf, timeout_s):
    cmd = [
        "cargo", "kani", "-p", h["pkg"], "--exact", "--harness", h["full"],
        "--output-format", "terse", "-Z", "unstable-options", "--harness-timeout", f"{int(timeout_s)}s",
        "-Z", "stubbing", "-Z", "async-lib",
        "-Z", "concrete-playback", "--concrete-playback=print",
        *feature_args([h]),
    ]
    with open(logf, "w") as lf:
        subprocess.run(cmd, cwd=WS, env=cargo_env(), stdout=lf, stderr=subprocess.STDOUT, preexec_fn=limit_mem_playback)
    text = open(logf, errors="replace").read()
    tests = re.findall(r"```\n(.*?)```", text, re.S)
    # keep counterexamples of failed checks only (reachability-witness playbacks are not violations)
    tests = [t for t in tests if "Check for `cover`" not in t]
    return tests


def native_crate(h):
    """Directory and package used for native replay: `<crate>-native` when it exists
    (same sources, real third-party containers), else the harness crate itself."""
    nd = h["crate"] + "-native"
    if os.path.isdir(os.path.join(HARNESS, nd)):
        for d, pkg in crates():
            if d == nd:
                return nd, pkg
    return h["crate"], h["pkg"]


def run_replay(rep, tag="replay"):
    """Run a replay descriptor natively. Returns dict(dev=bool reproduced, release=bool, log=path)."""
    prepare_ws()
    crate_dir, pkg = rep["native_crate"], rep["native_pkg"]
    modfile = os.path.join(WS, rep["module_file"])
    orig = open(modfile).read()
    res = {}
    try:
        with open(modfile, "w") as f:
            f.write(orig + "\n// ---- injected concrete playback test(s) ----\n" + rep["test_code"] + "\n")
        # `cargo kani playback` has no --release; the release profile users run is emulated by
        # switching off overflow checks and debug assertions and optimising (cargo profile env overrides)
        rel_env = {}
        for prof_name in ("DEV", "TEST"):
            rel_env[f"CARGO_PROFILE_{prof_name}_OVERFLOW_CHECKS"] = "false"
            rel_env[f"CARGO_PROFILE_{prof_name}_DEBUG_ASSERTIONS"] = "false"
            rel_env[f"CARGO_PROFILE_{prof_name}_OPT_LEVEL"] = "2"
        for prof, extra_env in (("dev", {}), ("release", rel_env)):
            logf = os.path.join(WORK, f"{tag}_{rep['harness']}_{prof}.log")
            cmd = ["cargo", "kani", "playback", "-Z", "concrete-playback", "-p", pkg,
                   *rep.get("feature_args", []), "--", rep["test_name"]]
            env = cargo_env()
            env.update(extra_env)
            with open(logf, "w") as lf:
                p = subprocess.run(cmd, cwd=WS, env=env, stdout=lf, stderr=subprocess.STDOUT)
            text = open(logf, errors="replace").read()
            ran = re.findall(r"test \S*" + re.escape(rep["test_name"]) + r"\w* \.\.\. (ok|FAILED)", text)
            if not ran:
                res[prof] = None  # did not run (build problem)
            else:
                res[prof] = "FAILED" in ran
            m = re.search(r"panicked at ([^\n]*)\n([^\n]*)", text)
            res[prof + "_panic"] = (m.group(1) + " " + m.group(2)) if m else ""
            res[prof + "_log"] = logf
    finally:
        with open(modfile, "w") as f:
            f.write(orig)
    return res


# --------------------------------------------------------------------------------------------
# known findings
# --------------------------------------------------------------------------------------------
def load_known():
    if not os.path.exists(KNOWN):
        return dict(findings=[], fixed=[])
    return json.load(open(KNOWN))


def finding_key(prop, h, f):
    # role of the failing check: harness family + check description + function it fires in
    return dict(property=prop, harness=h["name"], check=f["desc"], function=f["func"])


def is_known(known, key):
    for k in known.get("findings", []):
        if k["property"] != key["property"] or k["check"] != key["check"]:
            continue
        if "harness" in k and k["harness"] != key["harness"]:
            continue
        if "harness_prefix" in k and not key["harness"].startswith(k["harness_prefix"]):
            continue
        if "function" in k and k["function"] != key["function"]:
            continue
        return k
    return None


# --------------------------------------------------------------------------------------------
# main check
# --------------------------------------------------------------------------------------------
def load_props_meta():
    p = os.path.join(HARNESS, "props.json")
    return json.load(open(p)) if os.path.exists(p) else {}


def select(hs, prop, tier, only, seed):
    sel = [h for h in hs if prop in (h["prop"] or "").split(",")]
    if tier == "quick":
        sel = [h for h in sel if h["tier"] == "quick"]
    if only:
        sel = [h for h in sel if only in h["name"]]
    return sel


def check(prop, tier, only, jobs, seed):
    t0 = time.time()
    os.makedirs(WORK, exist_ok=True)
    os.makedirs(EVID, exist_ok=True)
    lock = open(os.path.join(WORK, "lock"), "w")
    fcntl.flock(lock, fcntl.LOCK_EX)
    hs = discover()
    sel = select(hs, prop, tier, only, seed)
    if not sel:
        log(f"no harness registered for {prop} tier={tier}")
        return 2
    try:
        prepare_ws()
    except Exception as e:  # slices that cannot be regenerated: harness needs maintenance
        log(f"INCONCLUSIVE property={prop}: cannot regenerate harness sources from /repo: {e}")
        write_evidence(prop, tier, seed, sel, {}, [], [f"generation failed: {e}"], time.time() - t0, 0)
        return 2
    meta = load_props_meta().get(prop, {})
    default_timeout = int(os.environ.get("VERIF_HARNESS_TIMEOUT", meta.get("timeout", 1800 if tier == "thorough" else 900)))
    by_pkg = {}
    for h in sel:
        by_pkg.setdefault(h["pkg"], []).append(h)
    results = {}
    inconclusive = []
    for pkg, lst in by_pkg.items():
        tmo = max([int(h["timeout"]) for h in lst if h["timeout"]] + [default_timeout])
        j = min(jobs, len(lst))
        logf = os.path.join(WORK, f"kani_{prop}_{pkg}.log")
        log(f"[{prop}] cargo kani -p {pkg}: {len(lst)} harnesses, -j {j}, timeout {tmo}s, mem cap {MEM_CAP_GB} GB/process")
        rc, text, wall = run_kani(pkg, lst, j, tmo, logf)
        be = build_error(text)
        if be:
            log(f"INCONCLUSIVE property={prop}: harness crate {pkg} does not build against the current /repo: {be} (log: {logf})")
            inconclusive.append(f"{pkg}: build error: {be}")
            continue
        parsed = parse_kani_output(text)
        for h in lst:
            r = parsed.get(h["full"])
            if r is None:
                r = dict(status="unknown", failed=[], checks=0, nfailed=0, covers=(0, 0), time=0.0, notes=["no output"], raw="")
            results[h["name"]] = r
    # second chance for harnesses that ran out of time/memory: the other SAT back end
    # (measured: minisat and cadical differ by 10x in either direction depending on the harness)
    retry = [h for h in sel if h["name"] in results and classify(results[h["name"]])[0] == "inconclusive"
             and results[h["name"]]["status"] != "success"
             and not results[h["name"]]["failed"] and os.environ.get("VERIF_NO_FALLBACK") != "1"]
    if retry:
        by = {}
        for h in retry:
            alt = "cadical" if h["solver"] == "minisat" else "minisat"
            by.setdefault((h["pkg"], alt), []).append(h)
        for (pkg, alt), lst in by.items():
            tmo = max([int(h["timeout"]) for h in lst if h["timeout"]] + [default_timeout])
            logf = os.path.join(WORK, f"kani_{prop}_{pkg}_fallback_{alt}.log")
            log(f"[{prop}] retrying {len(lst)} inconclusive harnesses of {pkg} with --solver {alt}")
            rc, text, wall = run_kani(pkg, lst, min(jobs, len(lst)), tmo, logf, extra=("--solver", alt))
            parsed = parse_kani_output(text)
            for h in lst:
                r = parsed.get(h["full"])
                if r is not None and classify(r)[0] != "inconclusive":
                    r["solver_used"] = alt
                    results[h["name"]] = r
                    inconclusive[:] = [i for i in inconclusive if not i.startswith(h["name"] + ":")]
    known = load_known()
    violations = []
    known_hits = []
    held = []
    for h in sel:
        r = results.get(h["name"])
        if r is None:
            continue
        verdict, why = classify(r)
        r["verdict"] = verdict
        if verdict == "held":
            held.append(h["name"])
            log(f"  ok   {h['full']}  checks={r['checks']} covers={r['covers'][0]}/{r['covers'][1]} t={r['time']:.1f}s")
        elif verdict == "inconclusive":
            inconclusive.append(f"{h['name']}: {why}")
            log(f"  ??   {h['full']}  INCONCLUSIVE: {why}")
        else:
            unknown_fail = []
            for f in r["failed"]:
                if any(p in f["desc"].lower() for p in INCONCLUSIVE_PATTERNS):
                    continue
                key = finding_key(prop, h, f)
                k = is_known(known, key)
                if k:
                    known_hits.append((k, h, f))
                else:
                    unknown_fail.append(f)
            if unknown_fail:
                violations.append((h, unknown_fail))
                log(f"  FAIL {h['full']}  " + "; ".join(f"{f['desc']} @ {f['func']}" for f in unknown_fail))
            else:
                # all failing checks are known findings; witnesses cannot be evaluated on a failed run
                held.append(h["name"])
                log(f"  ok   {h['full']}  (only known findings failed) t={r['time']:.1f}s")
    seen = set()
    for k, h, f in known_hits:
        ident = (k["property"], k.get("harness", k.get("harness_prefix", "")), k["check"])
        if ident in seen:
            continue
        seen.add(ident)
        log(f"KNOWN-FINDING: property={prop} {k.get('what', k['check'])} [harness {h['name']}]")
    # replay candidate violations natively before reporting
    confirmed = []
    replayed_checks = set()
    violations.sort(key=lambda hf: results[hf[0]["name"]].get("time", 0.0))
    for h, fails in violations:
        sig = frozenset(f["desc"] for f in fails)
        if confirmed and (sig <= replayed_checks or len(confirmed) >= 2):
            # same failing check already reproduced natively on a smaller shape: no need to replay again
            log(f"  note {h['full']}: same failing check(s) as an already replayed counterexample; not replayed again")
            continue
        rep = make_replay(prop, h, fails, max(1800, 4 * default_timeout))
        if rep is None:
            # Kani could not turn CBMC's trace into a playback test (kani-driver runs out of memory on
            # very large traces). Last resort: have the OTHER SAT back end decide the same harness; the
            # violation is reported only if it independently fails the same checks.
            alt = "cadical" if h["solver"] == "minisat" else "minisat"
            logf = os.path.join(WORK, f"kani_{prop}_{h['name']}_crosscheck_{alt}.log")
            log(f"  note {h['full']}: no concrete playback could be generated; cross-checking with --solver {alt}")
            rc2, text2, _ = run_kani(h["pkg"], [h], 1, max(1800, 3 * default_timeout), logf, extra=("--solver", alt))
            r2 = parse_kani_output(text2).get(h["full"])
            same = r2 is not None and r2["status"] == "failed" and \
                {f["desc"] for f in fails} <= {f["desc"] for f in r2["failed"]}
            if same:
                path = os.path.join(REPLAYS, prop, h["name"] + ".json")
                os.makedirs(os.path.dirname(path), exist_ok=True)
                json.dump(dict(property=prop, harness=h["name"], harness_full=h["full"], failed_checks=fails,
                               native_replay="unavailable: kani concrete playback could not be generated (trace too large)",
                               confirmation=f"the same checks fail under both SAT back ends ({h['solver']} and {alt})",
                               how_to_run=f"./check {prop} --only {h['name']}"), open(path, "w"), indent=1)
                confirmed.append((h, fails, path))
                replayed_checks |= sig
            else:
                inconclusive.append(f"{h['name']}: counterexample could not be extracted for replay and the second solver did not confirm it")
                log(f"  ??   {h['full']}: not confirmed by the second solver; treating as inconclusive")
            continue
        res = run_replay(rep, tag=f"replay_{prop}")
        rep["native_result"] = {k: v for k, v in res.items()}
        path = os.path.join(REPLAYS, prop, h["name"] + ".json")
        os.makedirs(os.path.dirname(path), exist_ok=True)
        json.dump(rep, open(path, "w"), indent=1)
        if res.get("dev") or res.get("release"):
            confirmed.append((h, fails, path))
            replayed_checks |= sig
        else:
            inconclusive.append(f"{h['name']}: solver counterexample did not reproduce natively (dev={res.get('dev')}, release={res.get('release')})")
            log(f"  ??   {h['full']}: counterexample does NOT reproduce natively -> harness/encoding problem, not reported as violation")
    wall = time.time() - t0
    write_evidence(prop, tier, seed, sel, results, known_hits, inconclusive, wall, len(confirmed))
    for h, fails, path in confirmed:
        what = "; ".join(f"{f['desc']} in {f['func']}" for f in fails)
        log(f"VIOLATION property={prop} replay={path}  # harness {h['name']}: {what}")
    if confirmed:
        return 1
    if inconclusive:
        for i in inconclusive:
            log(f"INCONCLUSIVE property={prop}: {i}")
        return 2
    log(f"[{prop}] held on everything explored: {len(held)} harnesses, {wall:.0f}s")
    return 0


def make_replay(prop, h, fails, timeout_s):
    logf = os.path.join(WORK, f"playback_{prop}_{h['name']}.log")
    tests = get_playback_test(h, logf, timeout_s)
    if not tests:
        return None
    code = "\n".join(tests)
    # harness modules may shadow `Vec` / `vec!` with models: make the generated tests hygienic
    code = code.replace("Vec<Vec<u8>>", "std::vec::Vec<std::vec::Vec<u8>>").replace("vec![", "std::vec![")
    names = re.findall(r"fn (kani_concrete_playback_\w+)\(", code)
    nd, npkg = native_crate(h)
    return dict(
        property=prop,
        harness=h["name"],
        harness_full=h["full"],
        crate=h["crate"],
        native_crate=nd,
        native_pkg=npkg,
        module_file=os.path.join(nd, "src", os.path.relpath(h["file"], os.path.join(h["crate"], "src"))),
        failed_checks=fails,
        test_name="kani_concrete_playback_" + h["name"],
        feature_args=feature_args([h]),
        test_code=code,
        how_to_run=f"./check {prop} --replay replays/{prop}/{h['name']}.json",
    )


def write_evidence(prop, tier, seed, sel, results, known_hits, inconclusive, wall, nviol):
    meta = load_props_meta().get(prop, {})
    samples = []
    funcs = set()
    stubs = set(meta.get("stubs", []))
    total_checks = 0
    solver_time = 0.0
    nontrivial = 0
    for h in sel:
        r = results.get(h["name"], {})
        funcs.update(h["funcs"])
        stubs.update(h["stubs"])
        total_checks += r.get("checks", 0)
        solver_time += r.get("time", 0.0)
        cov = r.get("covers", (0, 0))
        if (r.get("verdict") == "held" and r.get("status") == "success" and cov[0] == cov[1]) or r.get("verdict") == "violated":
            nontrivial += 1
        samples.append(dict(
            harness=h["full"], crate=h["pkg"], shape=h["shape"], unwind=h["unwind"], solver=r.get("solver_used", h["solver"]),
            verdict=r.get("verdict", "not-run"), checks_discharged=r.get("checks", 0),
            failed_checks=[f"{f['desc']} @ {f['func']}" for f in r.get("failed", [])],
            reachability_witnesses=f"{cov[0]}/{cov[1]}", verification_time_s=r.get("time", 0.0),
        ))
    ev = dict(
        property_id=prop,
        tier=tier,
        seed=seed,
        level="model_checking",
        coverage=dict(
            evaluations=len([s for s in samples if s["verdict"] != "not-run"]),
            distinct_nontrivial=nontrivial,
            rule="one evaluation = one Kani/CBMC bounded-model-checking run of a harness over all values of its symbolic "
                 "inputs (shape and bounds per sample); non-trivial = a solver verdict was obtained: SUCCESSFUL with every kani::cover! "
                 "reachability witness of the harness satisfied (so assumptions are satisfiable and the asserted code is reached), "
                 "or FAILED with a concrete counterexample; inconclusive runs (timeout, OOM, vacuous) are not counted",
            samples=samples,
            exhaustive=False,
            functions_encoded=sorted(funcs),
            bounds=meta.get("bounds", ""),
            outside_claim=meta.get("outside", ""),
            stubs=sorted(stubs),
            queries=total_checks,
            solver_time_s=round(solver_time, 2),
            unwinding_assertions=True,
            inconclusive=inconclusive,
            known_findings=[k.get("what", k["check"]) for k, _, _ in known_hits],
            engine="Kani 0.68.0 / CBMC 6.11.0 (SAT back ends: cadical, minisat per harness)",
            source_tree=REPO,
        ),
        assumptions=meta.get("assumptions", []),
        wall_s=round(wall, 2),
        violations=nviol,
    )
    os.makedirs(EVID, exist_ok=True)
    with open(os.path.join(EVID, prop + ".json"), "w") as f:
        json.dump(ev, f, indent=1)


def setup():
    os.makedirs(WORK, exist_ok=True)
    lock = open(os.path.join(WORK, "lock"), "w")
    fcntl.flock(lock, fcntl.LOCK_EX)
    prepare_ws()
    rc = 0
    for d, pkg in crates():
        if pkg.endswith("-native"):
            continue
        cmd = ["cargo", "kani", "-p", pkg, "--only-codegen", "-Z", "unstable-options", "-Z", "stubbing", "-Z", "async-lib"]
        if crate_features(d):
            cmd += ["--all-features"]
        log("$ " + " ".join(cmd))
        p = subprocess.run(cmd, cwd=WS, env=cargo_env(), stdout=subprocess.PIPE, stderr=subprocess.STDOUT, text=True)
        tail = "\n".join(l for l in p.stdout.split("\n") if l.startswith("error") or "Finished" in l)
        log(tail)
        if p.returncode != 0:
            rc = 1
            log(p.stdout[-3000:])
    return rc


def main():
    ap = argparse.ArgumentParser()
    ap.add_argument("prop", nargs="?")
    ap.add_argument("--tier", default=os.environ.get("VERIF_TIER", "quick"))
    ap.add_argument("--only", default=None)
    ap.add_argument("--jobs", type=int, default=int(os.environ.get("VERIF_JOBS", "8")))
    ap.add_argument("--replay", default=None)
    ap.add_argument("--setup", action="store_true")
    ap.add_argument("--list", action="store_true")
    a = ap.parse_args()
    seed = int(os.environ.get("VERIF_SEED", "0") or 0)
    if a.setup:
        sys.exit(setup())
    if a.list:
        for h in discover():
            print(h["prop"], h["tier"], h["pkg"], h["full"], "|", h["shape"])
        return
    if a.replay:
        rep = json.load(open(a.replay))
        res = run_replay(rep, tag="manual_replay")
        print(json.dumps(res, indent=1))
        if res.get("dev") or res.get("release"):
            print(f"VIOLATION property={rep['property']} replay={a.replay}")
            sys.exit(1)
        sys.exit(0)
    if not a.prop:
        ap.error("property id required")
    tier = a.tier if a.tier in ("quick", "thorough") else "quick"
    sys.exit(check(a.prop, tier, a.only, a.jobs, seed))


if __name__ == "__main__":
    main()
