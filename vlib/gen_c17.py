body = r'''//! C17: BlockRanges behaves as a set of heights.
//!
//! Every harness is ONE inductive step: an arbitrary representation-valid `BlockRanges` with a
//! fixed number of stored ranges whose bounds are free u64 values, one operation with free
//! arguments, and a universally quantified probe height `h` (a free u64): the result must be
//! representation-valid and `h` must be a member exactly when the set-theoretic definition says so.
use crate::block_ranges::{BlockRange, BlockRangeExt, BlockRanges};
use crate::common::*;

fn in_range(a: u64, e: u64, h: u64) -> bool {
    a <= h && h <= e
}

fn insert<const N: usize>() {
    let b = any_bounds::<N>();
    let mut r = build(&b);
    let (a, e, h): (u64, u64, u64) = kani::any();
    let before = mem(&b, h);
    let res = r.insert_relaxed(a..=e);
    let valid = a >= 1 && a <= e;
    assert!(res.is_ok() == valid, "C17 insert: Ok iff the range is valid");
    assert!(repr_ok(&r), "C17 insert: representation invariant broken");
    if valid {
        assert!(rmem(&r, h) == (before || in_range(a, e, h)), "C17 insert: result is not S + [a,e]");
    } else {
        assert!(rmem(&r, h) == before, "C17 insert: rejected insert changed the set");
    }
    kani::cover!(valid, "witness: valid insert");
    kani::cover!(!valid, "witness: invalid insert");
}

fn remove<const N: usize>() {
    let b = any_bounds::<N>();
    let mut r = build(&b);
    let (a, e, h): (u64, u64, u64) = kani::any();
    let before = mem(&b, h);
    let res = r.remove_relaxed(a..=e);
    let valid = a >= 1 && a <= e;
    assert!(res.is_ok() == valid, "C17 remove: Ok iff the range is valid");
    assert!(repr_ok(&r), "C17 remove: representation invariant broken");
    if valid {
        assert!(rmem(&r, h) == (before && !in_range(a, e, h)), "C17 remove: result is not S - [a,e]");
    } else {
        assert!(rmem(&r, h) == before, "C17 remove: rejected remove changed the set");
    }
    kani::cover!(valid, "witness: valid remove");
    kani::cover!(!valid, "witness: invalid remove");
}

fn complement<const N: usize>() {
    let b = any_bounds::<N>();
    let r = build(&b);
    let h: u64 = kani::any();
    let c = !r;
    assert!(repr_ok(&c), "C17 complement: representation invariant broken");
    assert!(rmem(&c, h) == (h >= 1 && !mem(&b, h)), "C17 complement: result is not [1,MAX] - S");
    kani::cover!(rmem(&c, h), "witness: complement non-empty");
}

fn union<const N: usize, const M: usize>() {
    let x = any_bounds::<N>();
    let y = any_bounds::<M>();
    let h: u64 = kani::any();
    let r = build(&x) | build(&y);
    assert!(repr_ok(&r), "C17 union: representation invariant broken");
    assert!(rmem(&r, h) == (mem(&x, h) || mem(&y, h)), "C17 union: result is not A + B");
    kani::cover!(true, "witness: union reached");
}

fn add<const N: usize, const M: usize>() {
    let x = any_bounds::<N>();
    let y = any_bounds::<M>();
    let h: u64 = kani::any();
    let mut r = build(&x);
    r += &build(&y);
    assert!(repr_ok(&r), "C17 add: representation invariant broken");
    assert!(rmem(&r, h) == (mem(&x, h) || mem(&y, h)), "C17 add: result is not A + B");
    kani::cover!(true, "witness: add reached");
}

fn difference<const N: usize, const M: usize>() {
    let x = any_bounds::<N>();
    let y = any_bounds::<M>();
    let h: u64 = kani::any();
    let r = build(&x) - build(&y);
    assert!(repr_ok(&r), "C17 difference: representation invariant broken");
    assert!(rmem(&r, h) == (mem(&x, h) && !mem(&y, h)), "C17 difference: result is not A - B");
    kani::cover!(true, "witness: difference reached");
}

// Intersection is implemented as `!(!A | !B)`. Executing three complements and a union
// symbolically in one query is out of reach (CBMC aborts at the 14 GB cap even for empty
// operands), so it is decided compositionally: `Not::not` and `BitOr::bitor` are replaced
// (kani::stub) by their CONTRACTS -- an arbitrary representation-valid value whose membership
// at the probe height is what complement / union prescribe -- and the real
// `bitand_assign`/`bitand` bodies are executed on top of them. The contracts themselves are
// what the `c17_complement_*` and `c17_union_*` harnesses establish for the real bodies.
static mut PROBE: u64 = 0;

fn any_small() -> BlockRanges {
    // arbitrary valid value with 0, 1 or 2 ranges; only its membership at PROBE and its
    // validity are observed by the callers below
    let k: u8 = kani::any();
    if k == 0 {
        build(&any_bounds::<0>())
    } else if k == 1 {
        build(&any_bounds::<1>())
    } else {
        build(&any_bounds::<2>())
    }
}

fn not_contract(x: BlockRanges) -> BlockRanges {
    let h = unsafe { PROBE };
    let c = any_small();
    kani::assume(rmem(&c, h) == (h >= 1 && !rmem(&x, h)));
    c
}

fn bitor_contract(x: BlockRanges, y: BlockRanges) -> BlockRanges {
    let h = unsafe { PROBE };
    let c = any_small();
    kani::assume(rmem(&c, h) == (rmem(&x, h) || rmem(&y, h)));
    c
}

fn intersection<const N: usize, const M: usize>() {
    let x = any_bounds::<N>();
    let y = any_bounds::<M>();
    let h: u64 = kani::any();
    unsafe { PROBE = h };
    let r = if kani::any() {
        build(&x) & build(&y)
    } else {
        let mut a = build(&x);
        a &= &build(&y);
        a
    };
    assert!(repr_ok(&r), "C17 intersection: representation invariant broken");
    assert!(rmem(&r, h) == (mem(&x, h) && mem(&y, h)), "C17 intersection: result is not A & B");
    kani::cover!(rmem(&r, h) || N == 0 || M == 0, "witness: intersection non-empty");
}

fn queries<const N: usize>() {
    let b = any_bounds::<N>();
    let r = build(&b);
    let h: u64 = kani::any();
    assert!(r.contains(h) == mem(&b, h), "C17 contains: wrong membership");
    assert!(r.len() as u128 == card(&b), "C17 len: wrong cardinality");
    assert!(r.is_empty() == (N == 0), "C17 is_empty: wrong");
    match r.head() {
        None => assert!(N == 0, "C17 head: None on non-empty set"),
        Some(x) => {
            assert!(mem(&b, x), "C17 head: not a member");
            assert!(!mem(&b, h) || h <= x, "C17 head: not the maximum");
        }
    }
    match r.tail() {
        None => assert!(N == 0, "C17 tail: None on non-empty set"),
        Some(x) => {
            assert!(mem(&b, x), "C17 tail: not a member");
            assert!(!mem(&b, h) || h >= x, "C17 tail: not the minimum");
        }
    }
    kani::cover!(mem(&b, h) || N == 0, "witness: probe inside the set");
}

fn pop_head<const N: usize>() {
    let b = any_bounds::<N>();
    let mut r = build(&b);
    let h: u64 = kani::any();
    let popped = if kani::any() { r.pop_head() } else { r.next_back() };
    assert!(repr_ok(&r), "C17 pop_head: representation invariant broken");
    match popped {
        None => assert!(N == 0, "C17 pop_head: None on non-empty set"),
        Some(x) => {
            assert!(mem(&b, x) && (!mem(&b, h) || h <= x), "C17 pop_head: did not return the maximum");
            assert!(rmem(&r, h) == (mem(&b, h) && h != x), "C17 pop_head: result is not S minus its maximum");
        }
    }
    kani::cover!(popped.is_some() || N == 0, "witness: pop_head reached");
}

fn pop_tail<const N: usize>() {
    let b = any_bounds::<N>();
    let mut r = build(&b);
    let h: u64 = kani::any();
    let popped = if kani::any() { r.pop_tail() } else { r.next() };
    assert!(repr_ok(&r), "C17 pop_tail: representation invariant broken");
    match popped {
        None => assert!(N == 0, "C17 pop_tail: None on non-empty set"),
        Some(x) => {
            assert!(mem(&b, x) && (!mem(&b, h) || h >= x), "C17 pop_tail: did not return the minimum");
            assert!(rmem(&r, h) == (mem(&b, h) && h != x), "C17 pop_tail: result is not S minus its minimum");
        }
    }
    kani::cover!(popped.is_some() || N == 0, "witness: pop_tail reached");
}

fn headn<const N: usize>() {
    let b = any_bounds::<N>();
    let r = build(&b);
    let (limit, h1, h2): (u64, u64, u64) = kani::any();
    let t = r.headn(limit);
    assert!(repr_ok(&t), "C17 headn: representation invariant broken");
    let c = card(&b);
    let want = if (limit as u128) < c { limit as u128 } else { c };
    assert!(rcard(&t) == want, "C17 headn: wrong number of heights");
    assert!(!rmem(&t, h1) || mem(&b, h1), "C17 headn: result not a subset");
    // everything left out is below everything kept
    assert!(!(mem(&b, h1) && !rmem(&t, h1) && rmem(&t, h2)) || h1 < h2, "C17 headn: not the highest heights");
    kani::cover!(N == 0 || (limit > 0 && (limit as u128) < c), "witness: headn truncates");
}

fn tailn<const N: usize>() {
    let b = any_bounds::<N>();
    let r = build(&b);
    let (limit, h1, h2): (u64, u64, u64) = kani::any();
    let t = r.tailn(limit);
    assert!(repr_ok(&t), "C17 tailn: representation invariant broken");
    let c = card(&b);
    let want = if (limit as u128) < c { limit as u128 } else { c };
    assert!(rcard(&t) == want, "C17 tailn: wrong number of heights");
    assert!(!rmem(&t, h1) || mem(&b, h1), "C17 tailn: result not a subset");
    assert!(!(mem(&b, h1) && !rmem(&t, h1) && rmem(&t, h2)) || h1 > h2, "C17 tailn: not the lowest heights");
    kani::cover!(N == 0 || (limit > 0 && (limit as u128) < c), "witness: tailn truncates");
}

fn edges<const N: usize>() {
    let b = any_bounds::<N>();
    let r = build(&b);
    let h: u64 = kani::any();
    let e = r.edges();
    assert!(repr_ok(&e), "C17 edges: representation invariant broken");
    let below = h > 1 && mem(&b, h - 1);
    let above = h < u64::MAX && mem(&b, h + 1);
    assert!(rmem(&e, h) == (mem(&b, h) && (!below || !above)), "C17 edges: not exactly the boundary heights");
    kani::cover!(rmem(&e, h) || N == 0, "witness: edges reached");
}

fn left_right_of<const N: usize>() {
    let b = any_bounds::<N>();
    let r = build(&b);
    let (x, h): (u64, u64) = kani::any();
    kani::assume(x >= 1); // heights are >= 1 (documented domain of BlockRanges)
    match r.left_of(x) {
        Some(y) => {
            assert!(mem(&b, y) && y < x, "C17 left_of: not a member below x");
            assert!(!(mem(&b, h) && h < x) || h <= y, "C17 left_of: not the greatest member below x");
        }
        None => assert!(!(mem(&b, h) && h < x), "C17 left_of: None although a member below x exists"),
    }
    match r.right_of(x) {
        Some(y) => {
            assert!(mem(&b, y) && y > x, "C17 right_of: not a member above x");
            assert!(!(mem(&b, h) && h > x) || h >= y, "C17 right_of: not the least member above x");
        }
        None => assert!(!(mem(&b, h) && h > x), "C17 right_of: None although a member above x exists"),
    }
    kani::cover!(N == 0 || r.left_of(x).is_some(), "witness: left_of finds a height");
}

fn partitions<const N: usize>() {
    let b = any_bounds::<N>();
    let r = build(&b);
    let (h, h2): (u64, u64) = kani::any();
    match r.partitions() {
        None => assert!(N == 0, "C17 partitions: None on non-empty set"),
        Some((l, m, rr)) => {
            assert!(repr_ok(&l) && repr_ok(&rr), "C17 partitions: representation invariant broken");
            assert!(mem(&b, m), "C17 partitions: middle not a member");
            assert!(mem(&b, h) == (rmem(&l, h) || h == m || rmem(&rr, h)), "C17 partitions: parts do not cover the set");
            assert!(!rmem(&l, h) || h < m, "C17 partitions: left not below middle");
            assert!(!rmem(&rr, h) || h > m, "C17 partitions: right not above middle");
            let (cl, cr) = (rcard(&l), rcard(&rr));
            assert!(cl <= cr + 1 && cr <= cl + 1, "C17 partitions: not balanced");
        }
    }
    kani::cover!(N == 0 || r.partitions().is_some(), "witness: partitions reached");
}
'''
harn = []
def H(name, call, tier, shape, funcs, unwind=8, solver="minisat", timeout=None, extra=""):
    t = f' timeout={timeout}' if timeout else ''
    harn.append(f'''
// @verif prop=C17 tier={tier} shape="{shape}" funcs="{funcs}"{t}
#[kani::proof]
#[kani::unwind({unwind})]
#[kani::solver({solver})]{extra}
fn {name}() {{
    {call};
}}
''')
FE="BlockRanges::find_affected_ranges,BlockRangeExt::{validate,is_adjacent,is_overlapping}"
un = [("insert","BlockRanges::insert_relaxed,"+FE,"op args a,e free u64"),
      ("remove","BlockRanges::remove_relaxed,"+FE,"op args a,e free u64"),
      ("complement","<BlockRanges as Not>::not,BlockRanges::remove_relaxed,BlockRanges::insert_relaxed",""),
      ("queries","BlockRanges::{contains,len,is_empty,head,tail},BlockRangeExt::len",""),
      ("pop_head","BlockRanges::pop_head,DoubleEndedIterator::next_back",""),
      ("pop_tail","BlockRanges::pop_tail,Iterator::next",""),
      ("headn","BlockRanges::headn,BlockRangeExt::headn,BlockRanges::insert_relaxed","limit free u64"),
      ("tailn","BlockRanges::tailn,BlockRangeExt::tailn,BlockRanges::insert_relaxed","limit free u64"),
      ("edges","BlockRanges::edges,BlockRanges::insert_relaxed",""),
      ("left_right_of","BlockRanges::{left_of,right_of},BlockRangeExt::{is_left_of,is_right_of}","x>=1 free u64"),
      ("partitions","BlockRanges::partitions,BlockRanges::{len,pop_head,pop_tail,insert_relaxed}","")]
for f,funcs,extra in un:
    # partitions with 2 and 3 stored ranges time out (1500 s, both SAT back ends): not registered
    maxn = 1 if f == "partitions" else 3
    for n in range(0, maxn+1):
        tier = "quick" if n <= 1 else "thorough"
        shape = f"{n} stored ranges with free u64 bounds (invariant assumed); {extra}; probe height free u64"
        H(f"c17_{f}_n{n}", f"{f}::<{n}>()", tier, shape, funcs)
bi = [("union","<BlockRanges as BitOr>::bitor,AddAssign::add_assign,BlockRanges::insert_relaxed"),
      ("add","<BlockRanges as AddAssign<&BlockRanges>>::add_assign,BlockRanges::insert_relaxed"),
      ("difference","<BlockRanges as Sub>::sub,SubAssign::sub_assign,BlockRanges::remove_relaxed"),
      ("intersection","<BlockRanges as BitAnd>::bitand,<BlockRanges as BitAndAssign<&BlockRanges>>::bitand_assign")]
for f,funcs in bi:
    for (n,m) in [(0,0),(1,0),(0,1),(1,1),(2,1),(1,2),(2,2)]:
        if f=="add" and (n,m) not in [(1,1),(2,1)]: continue
        tier = "quick" if n+m <= 1 or (f in("union","difference") and (n,m)==(1,1)) else "thorough"
        shape = f"operands with {n} and {m} stored ranges, free u64 bounds (invariant assumed); probe height free u64"
        extra = ""
        if f == "intersection":
            extra = "\n#[kani::stub(<BlockRanges as std::ops::Not>::not, not_contract)]\n#[kani::stub(<BlockRanges as std::ops::BitOr<BlockRanges>>::bitor, bitor_contract)]"
            shape += "; complement and union replaced by their contracts at the probe height"
            tier = "quick" if n + m <= 2 else "thorough"
        H(f"c17_{f}_n{n}_m{m}", f"{f}::<{n}, {m}>()", tier, shape, funcs, extra=extra, solver=("cadical" if f == "intersection" else "minisat"))
open('/verif/harness/blockranges/src/c17.rs','w').write(body + "".join(harn))
print(len(harn))
