#!/usr/bin/env python3
"""Regenerates /verif/MANIFEST.json from harness/props.json, harness annotations and not_applicable.json."""
import json, os, sys
sys.path.insert(0, os.path.dirname(os.path.abspath(__file__)))
import driver

V = driver.VERIF
props = json.load(open(os.path.join(V, "harness", "props.json")))
na = json.load(open(os.path.join(V, "not_applicable.json")))
hs = driver.discover()
all_ids = [json.loads(l)["id"] for l in open(os.path.join(V, "properties.jsonl"))]
checks = []
for pid in all_ids:
    if pid not in props:
        continue
    mine = [h for h in hs if pid in (h["prop"] or "").split(",")]
    if not mine:
        continue
    m = props[pid]
    c = dict(
        property_id=pid,
        quick_cmd=f"./check {pid} --tier quick",
        thorough_cmd=f"./check {pid} --tier thorough",
        evidence_file=f"/verif/evidence/{pid}.json",
        replay_cmd_template=f"./check {pid} --replay {{path}}",
        engine="kani-cbmc",
        level_claimed=dict(category="model_checking", text=m["level_text"], design_ref=m.get("design_ref", "DESIGN.md")),
        level_note=m["level_note"],
        technique=m.get("technique", "bounded model checking of the real code with Kani/CBMC (SAT)"),
    )
    checks.append(c)
claimed = {c["property_id"] for c in checks}
nal = [dict(property_id=p, reason=na[p]) for p in all_ids if p not in claimed]
missing = [p for p in all_ids if p not in claimed and p not in na]
if missing:
    raise SystemExit(f"properties neither claimed nor in not_applicable.json: {missing}")
hooks = json.load(open(os.path.join(V, "hooks.json")))
man = dict(
    version=1,
    setup_cmd="./check --setup",
    hooks=hooks,
    engines=[dict(name="kani-cbmc", path="/verif/check", serves_properties=sorted(claimed),
                  kind_free_text="Kani 0.68 (rustc MIR -> goto program) + CBMC 6.11 bounded model checker with SAT back ends; harness crates under /verif/harness compile the real /repo sources (path dependencies, #[path] includes and verbatim item slices regenerated on every run)")],
    checks=checks,
    notes="All checks are decided by the solver over the compiled real code within stated bounds; see DESIGN.md. Exit 2 = inconclusive (never counted as held or as violation).",
    not_applicable=nal,
)
json.dump(man, open(os.path.join(V, "MANIFEST.json"), "w"), indent=1)
print(f"MANIFEST.json: {len(checks)} checks, {len(nal)} not applicable")
