#!/bin/sh
# usage: mkwt.sh <name>   -> creates scratch worktree /tmp/wt/<name> of /repo HEAD with a warm target dir
set -e
d=/tmp/wt/$1
git -C /repo worktree add --detach "$d" HEAD >/dev/null 2>&1
cp -r --reflink=auto /repo/target "$d/target" 2>/dev/null || true
echo "$d"
