"""Verbatim item slicer for Rust sources (Mode C).

`extract(text, kind, name, ...)` returns the exact source text of one item (with its leading
doc comments and attributes) out of a Rust file: a free `fn`, a `struct`/`enum`/`const`/`type`/
`static`/`trait`, an `impl` block (selected by a regex on its header), or a method inside an
impl block. The scanner is aware of line/block comments (nested), string literals (incl. raw and
byte strings), char literals vs lifetimes, and bracket nesting; bodies are found by matching
braces, never by regex.

Raises SliceError when the item cannot be found: the caller turns that into "harness needs
maintenance" (exit 2), never into a verdict.
"""
import re


class SliceError(Exception):
    pass


def _skip_ws_comment_string(s, i):
    """If position i starts a comment / string / char literal, return the index just after it,
    else return i unchanged."""
    n = len(s)
    c = s[i]
    if c == "/" and i + 1 < n:
        if s[i + 1] == "/":
            j = s.find("\n", i)
            return n if j < 0 else j
        if s[i + 1] == "*":
            depth = 1
            j = i + 2
            while j < n and depth:
                if s.startswith("/*", j):
                    depth += 1
                    j += 2
                elif s.startswith("*/", j):
                    depth -= 1
                    j += 2
                else:
                    j += 1
            return j
    if c == '"':
        j = i + 1
        while j < n:
            if s[j] == "\\":
                j += 2
                continue
            if s[j] == '"':
                return j + 1
            j += 1
        return n
    # raw strings r"..", r#".."#, br#".."#
    m = re.compile(r'(?:b|c)?r(#*)"').match(s, i)
    if m and (i == 0 or not (s[i - 1].isalnum() or s[i - 1] == "_")):
        hashes = m.group(1)
        end = s.find('"' + hashes, m.end())
        return n if end < 0 else end + 1 + len(hashes)
    if c == "b" and i + 1 < n and s[i + 1] == '"' and (i == 0 or not (s[i - 1].isalnum() or s[i - 1] == "_")):
        return _skip_ws_comment_string(s, i + 1)
    if c == "'":
        # lifetime or char literal
        m = re.compile(r"'([A-Za-z_][A-Za-z0-9_]*)").match(s, i)
        if m and not (m.end() < n and s[m.end()] == "'"):
            return m.end()  # lifetime / label
        j = i + 1
        while j < n:
            if s[j] == "\\":
                j += 2
                continue
            if s[j] == "'":
                return j + 1
            j += 1
        return n
    return i


def _item_end(s, start):
    """Given the index where an item's header starts, return the index just after the item:
    after the matching `}` of its first top-level `{`, or after the first top-level `;`."""
    n = len(s)
    i = start
    depth_paren = 0
    while i < n:
        j = _skip_ws_comment_string(s, i)
        if j != i:
            i = j
            continue
        c = s[i]
        if c in "([":
            depth_paren += 1
        elif c in ")]":
            depth_paren -= 1
        elif c == ";" and depth_paren == 0:
            return i + 1
        elif c == "{" and depth_paren == 0:
            depth = 1
            i += 1
            while i < n and depth:
                j = _skip_ws_comment_string(s, i)
                if j != i:
                    i = j
                    continue
                if s[i] == "{":
                    depth += 1
                elif s[i] == "}":
                    depth -= 1
                i += 1
            if depth:
                raise SliceError("unbalanced braces")
            return i
        i += 1
    raise SliceError("item end not found")


def _code_positions(s, pattern, lo=0, hi=None):
    """Yield match objects of `pattern` (compiled regex) that start in code (not inside comments
    or strings) between lo and hi."""
    hi = len(s) if hi is None else hi
    i = lo
    while i < hi:
        j = _skip_ws_comment_string(s, i)
        if j != i:
            i = j
            continue
        m = pattern.match(s, i)
        if m:
            yield m
            i = m.end()
        else:
            i += 1


def _with_leading_attrs(s, start, lo=0):
    """Extend `start` backwards over contiguous doc-comment / attribute lines."""
    line_start = s.rfind("\n", 0, start) + 1
    cur = line_start
    while cur > lo:
        prev_end = cur - 1
        prev_start = s.rfind("\n", 0, prev_end) + 1
        line = s[prev_start:prev_end].strip()
        if line.startswith("///") or line.startswith("#[") or line.startswith("#!["):
            cur = prev_start
            continue
        # multi-line attribute: a line ending an attribute `)]`
        if line.endswith(")]") or line.endswith("]"):
            # walk back to the line that starts with #[
            k = prev_start
            found = None
            while k >= lo:
                l2s = s.rfind("\n", 0, max(k - 1, 0)) + 1 if k > 0 else 0
                l2 = s[k:s.find("\n", k)].strip()
                if l2.startswith("#["):
                    found = k
                    break
                if k == 0 or not l2:
                    break
                k = l2s
                if l2s == 0 and k == 0:
                    break
            if found is not None and found >= lo and s[found:prev_end].count("[") == s[found:prev_end].count("]"):
                cur = found
                continue
        break
    return cur


_VIS = r"(?:pub(?:\([^)]*\))?\s+)?"
_FNQ = r"(?:const\s+)?(?:async\s+)?(?:unsafe\s+)?(?:extern\s+\"[^\"]*\"\s+)?"


def _header_regex(kind, name):
    if kind == "fn":
        return re.compile(r"(?<![A-Za-z0-9_])" + _VIS + _FNQ + r"fn\s+" + re.escape(name) + r"\b")
    if kind in ("struct", "enum", "trait", "type", "union", "mod"):
        return re.compile(r"(?<![A-Za-z0-9_])" + _VIS + r"(?:unsafe\s+)?" + kind + r"\s+" + re.escape(name) + r"\b")
    if kind in ("const", "static"):
        return re.compile(r"(?<![A-Za-z0-9_])" + _VIS + kind + r"\s+(?:mut\s+)?" + re.escape(name) + r"\b")
    raise SliceError(f"unknown kind {kind}")


def _find_impls(s, header_pattern):
    """All impl blocks whose header matches (a type may have several impl blocks)."""
    out = []
    lo = 0
    while True:
        try:
            start, brace = _find_impl(s, header_pattern, lo)
        except SliceError:
            break
        out.append((start, brace))
        lo = _item_end(s, start)
    if not out:
        raise SliceError(f"impl block matching /{header_pattern}/ not found")
    return out


def _find_impl(s, header_pattern, lo=0, hi=None):
    """Find the impl block whose header (text between `impl` and `{`) matches header_pattern."""
    pat = re.compile(r"(?<![A-Za-z0-9_])(?:unsafe\s+)?impl\b")
    rx = re.compile(header_pattern, re.S)
    for m in _code_positions(s, pat, lo, hi):
        # header ends at first `{` at bracket depth 0
        i = m.end()
        n = len(s)
        depth = 0
        while i < n:
            j = _skip_ws_comment_string(s, i)
            if j != i:
                i = j
                continue
            if s[i] in "(<[":
                depth += 1
            elif s[i] in ")>]":
                # `->` must not count
                if not (s[i] == ">" and s[i - 1] == "-"):
                    depth -= 1
            elif s[i] == "{":
                break
            i += 1
        header = s[m.start():i]
        if rx.search(" ".join(header.split())):
            return m.start(), i
    raise SliceError(f"impl block matching /{header_pattern}/ not found")


def extract(text, kind, name=None, impl=None, with_attrs=True):
    """Extract an item.

    kind='impl', impl=<regex on normalised header>      -> whole impl block
    kind='fn', name, impl=None                          -> free function at any nesting outside impls
    kind='fn', name, impl=<regex>                       -> method inside that impl block
    kind in struct/enum/const/type/static/trait, name   -> that item
    """
    if kind == "impl":
        start, _ = _find_impl(text, impl)
        end = _item_end(text, start)
        a = _with_leading_attrs(text, start) if with_attrs else start
        return text[a:end]
    rx = _header_regex(kind, name)
    cands = []
    lo, hi = 0, None
    spans = [(0, None)]
    if impl is not None:
        spans = [(brace + 1, _item_end(text, istart) - 1) for istart, brace in _find_impls(text, impl)]
    for lo, hi in spans:
        for m in _code_positions(text, rx, lo, hi):
            # for free fns make sure we are not inside a `mod tests`/impl of the same name: accept the
            # first occurrence at the lowest brace depth
            depth = _brace_depth(text, lo, m.start())
            cands.append((depth, m.start()))
        if cands:
            break
    if not cands:
        where = f" in impl /{impl}/" if impl else ""
        raise SliceError(f"{kind} {name}{where} not found")
    cands.sort()
    start = cands[0][1]
    end = _item_end(text, start)
    a = _with_leading_attrs(text, start, lo) if with_attrs else start
    return text[a:end]


def _brace_depth(s, lo, pos):
    d = 0
    i = lo
    while i < pos:
        j = _skip_ws_comment_string(s, i)
        if j != i:
            i = j
            continue
        if s[i] == "{":
            d += 1
        elif s[i] == "}":
            d -= 1
        i += 1
    return d


def methods_of(text, impl):
    """Names of all `fn`s declared directly inside the impl blocks matching `impl` (depth 1)."""
    names = []
    rx = re.compile(r"(?<![A-Za-z0-9_])" + _VIS + _FNQ + r"fn\s+([A-Za-z_][A-Za-z0-9_]*)")
    for istart, brace in _find_impls(text, impl):
        lo, hi = brace + 1, _item_end(text, istart) - 1
        for m in _code_positions(text, rx, lo, hi):
            if _brace_depth(text, lo, m.start()) == 0 and m.group(1) not in names:
                names.append(m.group(1))
    return names


def strip_attrs(item, names):
    """Remove attribute lines such as `#[instrument(skip_all)]` (tracing) from an extracted item.
    Only whole-line attributes whose path is in `names` are removed; the removal is recorded by
    the caller as part of the claim."""
    out = []
    for line in item.split("\n"):
        st = line.strip()
        m = re.match(r"#\[(\w+(?:::\w+)*)", st)
        if m and m.group(1).split("::")[-1] in names and st.endswith("]"):
            continue
        out.append(line)
    return "\n".join(out)


if __name__ == "__main__":
    import sys

    t = open(sys.argv[1]).read()
    print(extract(t, sys.argv[2], sys.argv[3] if len(sys.argv) > 3 and sys.argv[3] != "-" else None,
                  impl=sys.argv[4] if len(sys.argv) > 4 else None))
