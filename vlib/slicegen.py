"""Regenerates item slices of /repo sources into the harness workspace (Mode C). Filled in later."""
def generate(repo, ws, write_if_changed):
    return []
