"""Mode C generation: verbatim item slices of /repo/node sources for the vh-node crate."""
import os
import slice as sl

HEADER = "// GENERATED on every run by /verif/vlib/slicegen_c.py: items copied verbatim from {src}\n// items: {items}\n\n"

# attribute macros that only add tracing spans; removed from sliced items (recorded in DESIGN.md)
TRACING_ATTRS = {"instrument"}


def _read(repo, rel):
    return open(os.path.join(repo, rel)).read()


def slice_file(repo, rel, specs):
    """specs: list of dict(kind, name=None, impl=None). Returns generated text."""
    text = _read(repo, rel)
    parts = []
    names = []
    for sp in specs:
        item = sl.extract(text, sp["kind"], sp.get("name"), impl=sp.get("impl"))
        item = sl.strip_attrs(item, TRACING_ATTRS)
        if sp.get("rewrite"):
            for a, b in sp["rewrite"]:
                if a not in item:
                    raise sl.SliceError(f"rewrite anchor {a!r} not found in {sp}")
                item = item.replace(a, b)
        if sp.get("wrap"):
            # methods sliced out of an impl block are re-wrapped in an impl header given by the harness
            item = sp["wrap"] + " {\n" + item + "\n}"
        parts.append(item)
        names.append((sp["kind"] + " " + (sp.get("name") or "")).strip() + (f" in impl /{sp['impl']}/" if sp.get("impl") else ""))
    return HEADER.format(src=os.path.join(repo, rel), items="; ".join(names)) + "\n\n".join(parts) + "\n"


def generate(repo, ws, write_if_changed):
    out = []
    g = os.path.join(ws, "node/src/generated")

    def emit(name, content):
        p = os.path.join(g, name)
        write_if_changed(p, content)
        out.append(p)

    # whole-file copy of block_ranges.rs (+ accessor), same as for vh-blockranges
    import slicegen
    src = os.path.join(repo, "node/src/block_ranges.rs")
    emit("block_ranges.rs", open(src).read() + slicegen.BLOCK_RANGES_ACCESS + "\n" + slicegen.HEADER.format(src=src))

    emit("syncer_c24.rs", slice_file(repo, "node/src/syncer.rs", [
        dict(kind="fn", name="calculate_range_to_fetch"),
    ]))
    srv = "node/src/p2p/header_ex/server.rs"
    utl = "node/src/p2p/header_ex/utils.rs"
    emit("server_c29.rs",
         slice_file(repo, srv, [
             dict(kind="const", name="MAX_HEADERS_AMOUNT_RESPONSE"),
             dict(kind="struct", name="HeaderExServerHandler"),
             dict(kind="trait", name="ResponseSender"),
             dict(kind="impl", impl=r"impl<S, R> HeaderExServerHandler<S, R>"),
             dict(kind="fn", name="parse_request"),
         ]) + slice_file(repo, utl, [
             dict(kind="trait", name="HeaderRequestExt"),
             dict(kind="impl", impl=r"impl HeaderRequestExt for HeaderRequest"),
             dict(kind="trait", name="HeaderResponseExt"),
             dict(kind="impl", impl=r"impl HeaderResponseExt for HeaderResponse"),
             dict(kind="trait", name="ExtendedHeaderExt"),
             dict(kind="impl", impl=r"impl ExtendedHeaderExt for ExtendedHeader"),
         ]))
    emit("pruner_c36.rs", slice_file(repo, "node/src/pruner.rs", [
        dict(kind="struct", name="BlockInfo"),
        dict(kind="fn", name="find_height_after_window"),
        dict(kind="fn", name="find_height_after_window_fast"),
        dict(kind="fn", name="find_height_after_window_slow"),
    ]))
    # every top-level `fn parse_*` of header_ex.rs (so that a refactor that introduces a shared
    # parsing helper is still sliced completely)
    import re as _re
    hx_text = _read(repo, "node/src/p2p/header_ex.rs")
    parse_fns = []
    for m in _re.finditer(r"^(?:pub(?:\([^)]*\))?\s+)?fn\s+(parse_\w+)", hx_text, _re.M):
        if m.group(1) not in parse_fns:
            parse_fns.append(m.group(1))
    for need in ("parse_header_request", "parse_header_response"):
        if need not in parse_fns:
            raise sl.SliceError(f"fn {need} not found in header_ex.rs")
    emit("header_ex_c30.rs", slice_file(repo, "node/src/p2p/header_ex.rs",
                                        [dict(kind="fn", name=n) for n in parse_fns]))
    # chunked reading (C30, thorough tier): EVERY column-0 free fn of header_ex.rs (sync or async, so
    # that helpers introduced by a refactor are sliced too) and the request limits. A slicing failure
    # here must not take the other vh-node checks down: it becomes a compile error of module c30r only.
    hx_free = []
    for m in _re.finditer(r"^(?:pub(?:\([^)]*\))?\s+)?(?:async\s+)?fn\s+(\w+)", hx_text, _re.M):
        if m.group(1) not in hx_free:
            hx_free.append(m.group(1))
    try:
        if "read_up_to" not in hx_free:
            raise sl.SliceError("fn read_up_to not found in header_ex.rs")
        emit("header_ex_c30_read.rs", slice_file(repo, "node/src/p2p/header_ex.rs",
             [dict(kind="const", name=c) for c in ("REQUEST_SIZE_LIMIT", "REQUEST_TIME_LIMIT")] +
             [dict(kind="fn", name=n) for n in hx_free]))
    except sl.SliceError as e:
        emit("header_ex_c30_read.rs", "compile_error!(%s);\n" % __import__("json").dumps("slice failed: " + str(e)))
    emit("header_session_c26.rs",
         slice_file(repo, "node/src/p2p/header_session.rs", [
             dict(kind="const", name="MIN_AMOUNT_PER_REQ"),
             dict(kind="const", name="MAX_AMOUNT_PER_REQ"),
             dict(kind="const", name="MAX_CONCURRENT_REQS"),
             dict(kind="type", name="Result"),
             dict(kind="type", name="TaskResult"),
             dict(kind="struct", name="HeaderSession"),
             dict(kind="impl", impl=r"^impl HeaderSession$"),
             dict(kind="fn", name="take_next_batch"),
         ]) + slice_file(repo, utl, [
             dict(kind="trait", name="HeaderRequestExt"),
             dict(kind="impl", impl=r"impl HeaderRequestExt for HeaderRequest"),
         ]))
    # every method of InMemoryStoreInner except the constructor and the two that use Vec<Cid>
    # (discovered by name, so that a refactor introducing a helper method is still sliced completely)
    ims_text = _read(repo, "node/src/store/in_memory_store.rs")
    ims_skip = {"new", "update_sampling_metadata", "get_sampling_metadata"}
    ims_methods = [m for m in sl.methods_of(ims_text, r"^impl InMemoryStoreInner$") if m not in ims_skip]
    for need in ("insert", "verify_against_neighbours", "remove_height", "mark_as_sampled", "get_by_height", "get_by_hash"):
        if need not in ims_methods:
            raise sl.SliceError(f"InMemoryStoreInner::{need} not found")
    emit("in_memory_store_c20.rs", slice_file(repo, "node/src/store/in_memory_store.rs",
         [dict(kind="struct", name="InMemoryStoreInner")] +
         [dict(kind="fn", name=m, impl=r"^impl InMemoryStoreInner$", wrap="impl InMemoryStoreInner") for m in ims_methods]))
    emit("extended_header_c02.rs", slice_file(repo, "types/src/extended_header.rs", [
        dict(kind="const", name="VERIFY_CLOCK_DRIFT"),
        dict(kind="fn", name="verify", impl=r"^impl ExtendedHeader$", wrap="impl ExtendedHeader"),
        dict(kind="fn", name="verify_adjacent", impl=r"^impl ExtendedHeader$", wrap="impl ExtendedHeader"),
        dict(kind="fn", name="verify_range", impl=r"^impl ExtendedHeader$", wrap="impl ExtendedHeader"),
        dict(kind="fn", name="verify_adjacent_range", impl=r"^impl ExtendedHeader$", wrap="impl ExtendedHeader"),
    ]))
    emit("store_utils_c02.rs", slice_file(repo, "node/src/store/utils.rs", [
        dict(kind="struct", name="VerifiedExtendedHeaders", rewrite=[("#[derive(Clone)]", "// derive removed by the slicer")]),
        dict(kind="impl", impl=r"^impl TryFrom<Vec<ExtendedHeader>> for VerifiedExtendedHeaders$"),
    ]))
    emit("namespace_data_c06.rs", slice_file(repo, "types/src/namespace_data.rs", [
        dict(kind="fn", name="verify", impl=r"^impl NamespaceData$", wrap="impl NamespaceData"),
    ]))
    emit("extended_header_c01.rs", slice_file(repo, "types/src/extended_header.rs", [
        dict(kind="fn", name="validate", impl=r"^impl ExtendedHeader$", wrap="impl ExtendedHeader"),
    ]))
    emit("daser_c34.rs", slice_file(repo, "node/src/daser.rs", [
        dict(kind="const", name="PRUNER_THRESHOLD"),
        dict(kind="fn", name="on_want_to_prune", impl=r"impl<S> Worker<S>", wrap="impl Worker"),
        dict(kind="fn", name="schedule_next_sample_block", impl=r"impl<S> Worker<S>", wrap="impl Worker"),
        dict(kind="fn", name="update_queue", impl=r"impl<S> Worker<S>", wrap="impl Worker"),
        dict(kind="fn", name="in_sampling_window", impl=r"impl<S> Worker<S>", wrap="impl Worker"),
    ]))
    emit("row_namespace_data_c06.rs", slice_file(repo, "types/src/row_namespace_data.rs", [
        dict(kind="fn", name="verify", impl=r"^impl RowNamespaceData$", wrap="impl RowNamespaceData"),
    ]))
    emit("peer_tracker_c39.rs", slice_file(repo, "node/src/peer_tracker.rs", [
        dict(kind="const", name="EXPIRED_AFTER"),
        dict(kind="struct", name="PeerTracker"),
        dict(kind="struct", name="PeerTrackerInfo", rewrite=[("#[cfg_attr(feature = \"uniffi\", derive(uniffi::Record))]\n#[derive(Debug, Clone, PartialEq, Eq, Default, Serialize, Deserialize)]", "#[derive(Debug, Clone, PartialEq, Eq, Default)] // serde/uniffi derives removed by the slicer")]),
        dict(kind="struct", name="Peer"),
        dict(kind="struct", name="ConnectionInfo"),
        dict(kind="enum", name="NodeKind"),
        dict(kind="fn", name="is_full", impl=r"^impl NodeKind$", wrap="impl NodeKind"),
        dict(kind="fn", name="new", impl=r"^impl Peer$", wrap="impl Peer"),
        dict(kind="fn", name="id", impl=r"^impl Peer$", wrap="impl Peer"),
        dict(kind="fn", name="is_connected", impl=r"^impl Peer$", wrap="impl Peer"),
        dict(kind="fn", name="is_trusted", impl=r"^impl Peer$", wrap="impl Peer"),
        dict(kind="fn", name="is_protected", impl=r"^impl Peer$", wrap="impl Peer"),
        dict(kind="fn", name="is_protected_with_tag", impl=r"^impl Peer$", wrap="impl Peer"),
        dict(kind="fn", name="is_archival", impl=r"^impl Peer$", wrap="impl Peer"),
        dict(kind="fn", name="is_full", impl=r"^impl Peer$", wrap="impl Peer"),
        dict(kind="fn", name="info", impl=r"^impl PeerTracker$", wrap="impl PeerTracker"),
        dict(kind="fn", name="peer", impl=r"^impl PeerTracker$", wrap="impl PeerTracker"),
        dict(kind="fn", name="add_peer_id", impl=r"^impl PeerTracker$", wrap="impl PeerTracker"),
        dict(kind="fn", name="set_trusted", impl=r"^impl PeerTracker$", wrap="impl PeerTracker"),
        dict(kind="fn", name="protect", impl=r"^impl PeerTracker$", wrap="impl PeerTracker"),
        dict(kind="fn", name="unprotect", impl=r"^impl PeerTracker$", wrap="impl PeerTracker"),
        dict(kind="fn", name="protected_len", impl=r"^impl PeerTracker$", wrap="impl PeerTracker"),
        dict(kind="fn", name="add_connection", impl=r"^impl PeerTracker$", wrap="impl PeerTracker"),
        dict(kind="fn", name="remove_connection", impl=r"^impl PeerTracker$", wrap="impl PeerTracker"),
        dict(kind="fn", name="mark_as_archival", impl=r"^impl PeerTracker$", wrap="impl PeerTracker"),
        dict(kind="fn", name="recount_peer_tracker_info", impl=r"^impl PeerTracker$", wrap="impl PeerTracker"),
        dict(kind="fn", name="gc", impl=r"^impl PeerTracker$", wrap="impl PeerTracker"),
    ]))
    emit("commitment_c12.rs", slice_file(repo, "types/src/blob/commitment.rs", [
        dict(kind="fn", name="merkle_mountain_range_sizes"),
        dict(kind="fn", name="blob_min_square_size"),
        dict(kind="fn", name="subtree_width"),
        dict(kind="fn", name="round_up_to_power_of_2"),
        dict(kind="fn", name="round_down_to_power_of_2"),
    ]))
    emit("namespace_proof_c16.rs", slice_file(repo, "types/src/nmt/namespace_proof.rs", [
        dict(kind="fn", name="total_leaves", impl=r"^impl NamespaceProof$", wrap="impl NamespaceProof"),
    ]))
    emit("row_proof_c16.rs", slice_file(repo, "types/src/data_availability_header.rs", [
        dict(kind="struct", name="RowProof", rewrite=[('#[derive(Debug, Clone, PartialEq, Serialize, Deserialize)]\n#[serde(try_from = "RawRowProof", into = "RawRowProof")]', '// derives removed by the slicer')]),
        dict(kind="fn", name="verify", impl=r"^impl RowProof$", wrap="impl RowProof"),
    ]))
    emit("client_c28.rs",
         slice_file(repo, "node/src/p2p/header_ex/client.rs", [
             dict(kind="fn", name="decode_and_verify_responses"),
         ]) + slice_file(repo, utl, [
             dict(kind="trait", name="HeaderRequestExt"),
             dict(kind="impl", impl=r"impl HeaderRequestExt for HeaderRequest"),
             dict(kind="trait", name="HeaderResponseExt"),
             dict(kind="impl", impl=r"impl HeaderResponseExt for HeaderResponse"),
         ]))
    emit("validator_set_c03.rs",
         slice_file(repo, "types/src/trust_level.rs", [
             dict(kind="struct", name="TrustLevelRatio"),
             dict(kind="impl", impl=r"^impl TrustLevelRatio$"),
         ]) + slice_file(repo, "types/src/validator_set.rs", [
             dict(kind="trait", name="ValidatorSetExt"),
             dict(kind="impl", impl=r"^impl ValidatorSetExt for Set$"),
             dict(kind="fn", name="find_validator"),
         ]))
    emit("syncer_c25.rs", slice_file(repo, "node/src/syncer.rs", [
        dict(kind="const", name="SLOW_SYNC_MIN_THRESHOLD"),
        dict(kind="fn", name="fetch_next_batch", impl=r"impl<S> Worker<S>", wrap="impl Worker"),
        dict(kind="fn", name="in_sampling_window", impl=r"impl<S> Worker<S>", wrap="impl Worker"),
        dict(kind="fn", name="calculate_range_to_fetch"),
    ]))
    emit("pruner_c35.rs", slice_file(repo, "node/src/pruner.rs", [
        dict(kind="const", name="MAX_PRUNABLE_BATCH_SIZE"),
        dict(kind="fn", name="get_next_prunable_batch", impl=r"impl<S, B> Worker<S, B>", wrap="impl Worker"),
    ]))
    emit("p2p_c27.rs", slice_file(repo, "node/src/p2p.rs", [
        dict(kind="fn", name="get_verified_headers_range", impl=r"^impl P2p$", wrap="impl P2p"),
    ]))
    emit("merkle_proof_c13.rs", slice_file(repo, "types/src/merkle_proof.rs", [
        dict(kind="struct", name="MerkleProof", rewrite=[('#[derive(Debug, Clone, PartialEq, Serialize, Deserialize)]\n#[serde(try_from = "RawMerkleProof", into = "RawMerkleProof")]', '#[derive(Debug, Clone, PartialEq)] // serde derives removed by the slicer')]),
        dict(kind="impl", impl=r"^impl MerkleProof$"),
        dict(kind="fn", name="hash_leaves_collecting_aunts"),
        dict(kind="fn", name="subtree_root_from_aunts"),
    ]))
    return out
