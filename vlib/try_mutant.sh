#!/bin/bash
# usage: try_mutant.sh <seeded-id> <PROP> [extra check args]  -- applies the seeded patch to /repo, runs the check, reverts
id=$1; prop=$2; shift 2
cd /repo || exit 2
if ! git diff --quiet; then echo "/repo has uncommitted changes"; exit 2; fi
git apply /verif/seeded/$id/patch.diff || { echo "patch does not apply"; exit 2; }
cd /verif && ./check $prop "$@" > /tmp/try_${id}_${prop}.log 2>&1; rc=$?
git -C /repo checkout -- .
echo "exit=$rc"; grep "VIOLATION\|INCONCLUSIVE\|KNOWN" /tmp/try_${id}_${prop}.log | cut -c1-260 | head -8
exit $rc
